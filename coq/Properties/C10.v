(** C10 — Invalid parameters are rejected with an error; accepted instances never panic. *)
From Yata Require Import Base.Prelude Base.Num Base.NumR Core.Window Core.WindowSpec Core.Candle Core.Strings
  Spec.Hist Methods.Basic Methods.Select Proofs.MethodsCommon Proofs.Totality Proofs.StringsProofs.
Open Scope Z_scope.

Section C10.
Context {pw : PW} {N : Num}.
Hypothesis pmax_ge : 2 <= pmax.

(** [ctor_class new lo hi]: over the WHOLE parameter range 0..=MAX the constructor returns Ok exactly
    for lo <= n <= hi and Err(WrongMethodParameters) otherwise (the model has no other outcome) *)
Definition ctor_class {S V} (new : Z -> V -> outcome S) (lo hi : Z) : Prop :=
  forall n v, 0 <= n <= pmax ->
    (accepts (new n v) = true <-> lo <= n <= hi) /\ (accepts (new n v) = false -> rejects (new n v) = true).

Theorem C10_sma : ctor_class sma_new 1 (pmax - 1). Proof. exact sma_new_class. Qed.
Theorem C10_wma : ctor_class wma_new 1 (pmax - 1). Proof. exact wma_new_class. Qed.
Theorem C10_ema : ctor_class ema_new 1 (pmax - 1). Proof. exact ema_new_class. Qed.
Theorem C10_swma : ctor_class swma_new 1 (pmax - 1). Proof. exact swma_new_class. Qed.
Theorem C10_wsma : ctor_class wsma_new 1 (pmax / 2). Proof. exact (wsma_new_class pmax_ge). Qed.
Theorem C10_lin_reg : ctor_class linreg_new 2 (pmax - 1). Proof. exact linreg_new_class. Qed.
Theorem C10_st_dev : ctor_class stdev_new 2 (pmax - 1). Proof. exact stdev_new_class. Qed.
Theorem C10_integral : ctor_class integral_new 0 (pmax - 1). Proof. exact integral_new_class. Qed.
Theorem C10_vidya : ctor_class vidya_new 1 (pmax - 1). Proof. exact vidya_new_class. Qed.
Theorem C10_momentum : ctor_class momentum_new 1 (pmax - 1). Proof. exact momentum_new_class. Qed.
Theorem C10_derivative : ctor_class derivative_new 1 (pmax - 1). Proof. exact derivative_new_class. Qed.
Theorem C10_vwma : ctor_class vwma_new 1 (pmax - 1). Proof. exact vwma_new_class. Qed.
Theorem C10_linear_volatility : ctor_class linvol_new 1 (pmax - 1). Proof. exact linvol_new_class. Qed.
Theorem C10_rma n v : 0 <= n <= pmax ->
  (accepts (rma_new n v) = true <-> 1 <= n) /\ (accepts (rma_new n v) = false -> rejects (rma_new n v) = true).
Proof. exact (rma_new_class n v). Qed.
Theorem C10_reversal l r v : 0 <= l <= pmax -> 0 <= r <= pmax ->
  (accepts (rev_new l r v) = true <-> 1 <= l /\ 1 <= r /\ l + r <= pmax - 2) /\
  (accepts (rev_new l r v) = false -> rejects (rev_new l r v) = true).
Proof. exact (rev_new_class l r v). Qed.

(** what an accepted constructor requests stays inside PeriodType and below MAX (no overflow, no debug assertion) *)
Theorem C10_requests_in_range n : 1 <= n <= pmax - 1 ->
  n <= pmax - 1 /\ n + 1 <= pmax /\ (n + 1) / 2 <= pmax - 1 /\ n / 2 <= pmax - 1 /\ 0 <= n - 1.
Proof. exact (ctor_requests_in_range pmax_ge n). Qed.
Theorem C10_wsma_requests n : 1 <= n <= pmax / 2 -> 1 <= n * 2 - 1 <= pmax - 1 /\ n * 2 - 1 + 1 <= pmax.
Proof. exact (wsma_requests_in_range n). Qed.
Theorem C10_reversal_requests l r : 1 <= l -> 1 <= r -> l + r <= pmax - 2 -> 3 <= l + r + 1 <= pmax - 1.
Proof. exact (reversal_requests_in_range l r). Qed.
Theorem C10_window_new_accepted {A} n (v : A) : 0 <= n <= pmax - 1 -> w_new n v = Ok (w_new_t n v).
Proof. exact (w_new_accepted n v). Qed.
Theorem C10_push_nonempty {A} (w : window A) x : wf w -> 0 < wsize w -> w_push w x = Ok (w_push_t w x).
Proof. exact (w_push_nonempty w x). Qed.
(** a parsed period always fits PeriodType; parsing is a total function (it cannot panic) *)
Theorem C10_parse_period_range s v : parse_period s = Some v -> 0 <= v <= pmax.
Proof. apply parse_period_range. lia. Qed.
End C10.

Theorem C10_sma_never_pushes_into_empty_window {pw : PW} n (v : @F NumR) xs x : 1 <= n <= pmax - 1 ->
  exists s0, sma_new n v = Ok s0 /\
    let s := steps sma_next s0 xs in w_push (sma_window s) x = Ok (w_push_t (sma_window s) x).
Proof. exact (sma_never_panics n v xs x). Qed.
