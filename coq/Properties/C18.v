(** C18 — Candle helpers satisfy their textbook identities; text forms round-trip. *)
From Yata Require Import Base.Prelude Base.Num Base.NumR Core.Window Core.Candle Core.Strings
  Proofs.CandleProofs Proofs.StringsProofs.
From Coq Require Import Reals.

Section C18.
Local Notation C := (candle (N := NumR)).
Open Scope R_scope.
Theorem C18_tp (c : C) : c_tp c = (c_high c + c_low c + c_close c) / 3. Proof. exact (tp_formula c). Qed.
Theorem C18_hl2 (c : C) : c_hl2 c = (c_high c + c_low c) / 2. Proof. exact (hl2_formula c). Qed.
Theorem C18_ohlc4 (c : C) : c_ohlc4 c = (c_open c + c_high c + c_low c + c_close c) / 4. Proof. exact (ohlc4_formula c). Qed.
Theorem C18_volumed_price (c : C) : c_volumed_price c = c_tp c * c_volume c. Proof. exact (volumed_price_formula c). Qed.
Theorem C18_source (c : C) :
  c_source c SClose = c_close c /\ c_source c SOpen = c_open c /\ c_source c SHigh = c_high c /\
  c_source c SLow = c_low c /\ c_source c STP = c_tp c /\ c_source c SHL2 = c_hl2 c /\
  c_source c SVolume = c_volume c /\ c_source c SVolumedPrice = c_volumed_price c.
Proof. exact (source_formula c). Qed.
Theorem C18_clv (c : C) : c_high c <> c_low c ->
  c_clv c = ((c_close c - c_low c) - (c_high c - c_close c)) / (c_high c - c_low c).
Proof. exact (clv_formula c). Qed.
Theorem C18_clv_zero_range (c : C) : c_high c = c_low c -> c_clv c = 0. Proof. exact (clv_zero_range c). Qed.
Theorem C18_true_range (c : C) (pc : R) : c_low c <= c_high c ->
  c_tr_close c pc = Rmax (c_high c - c_low c) (Rmax (Rabs (c_high c - pc)) (Rabs (c_low c - pc))).
Proof. exact (tr_textbook c pc). Qed.
Theorem C18_validate (c : C) :
  c_validate c = true <->
  (c_low c <= c_close c <= c_high c /\ c_low c <= c_open c <= c_high c /\
   0 < c_low c /\ 0 < c_open c /\ 0 < c_close c /\ 0 < c_high c /\ 0 <= c_volume c).
Proof. exact (validate_spec c). Qed.
Theorem C18_add_assoc (a b c : C) : c_add (c_add a b) c = c_add a (c_add b c). Proof. exact (candle_add_assoc a b c). Qed.
End C18.

Theorem C18_source_text_roundtrip : forall k, source_from_str (of_ascii (source_to_str k)) = Some k.
Proof. intros k. apply source_roundtrip. apply all_sources_complete. Qed.
Theorem C18_source_parse_exact s k : source_from_str s = Some k ->
  exists name, In (name, k) source_names /\ ustr_eqb (trim (map ascii_lower s)) (of_ascii name) = true.
Proof. exact (source_parse_exact s k). Qed.
Theorem C18_ma_text_roundtrip : forall k, In k all_kinds -> forall n, (n < 256)%nat -> ma_rt_ok PW8 k (Z.of_nat n) = true.
Proof. exact ma_roundtrip_u8. Qed.
Theorem C18_ma_parse_exact {pw : PW} s k len : ma_from_str s = Some (k, len) ->
  exists m p name, split_once 45 s = Some (m, p) /\ parse_period p = Some len /\
    In (name, k) ma_names /\ ustr_eqb m (of_ascii name) = true.
Proof. exact (ma_parse_exact s k len). Qed.
