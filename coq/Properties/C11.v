(** C11 — indicator interface contract: the declarative part.  The table is
    re-generated from /repo/src/indicators on every run (tools/xlate.py); the
    theorems below are re-checked against it. *)
From Yata Require Import Base.Prelude Spec.ConfigTable Generated.Configs.
Open Scope string_scope.

(** every indicator: set arms sound and complete, default arm is an error,
    every IndicatorResult built in next() has the shape announced by size()
    (and fits the 4+4 slots of IndicatorResult), Default gives every field a
    value, init starts with the validate guard, serde derives are complete *)
Theorem C11_tables_ok : forall t, In t indicator_tables -> table_ok t = true.
Proof. apply forallb_forall. vm_compute. reflexivity. Qed.

Theorem C11_all_indicators_present : length indicator_tables = 36%nat.
Proof. reflexivity. Qed.

(** consequence for the string setter of every indicator, for any parser:
    Ok changes exactly the named public parameter; anything else is an error *)
Theorem C11_set_exact parses : forall t, In t indicator_tables -> forall c name value c',
  set_sem parses t c name value = Some c' ->
  (forall other, other <> name -> assoc other c' = assoc other c) /\
  (assoc name c <> None -> assoc name c' = Some value) /\ mem name (pub_fields t) = true.
Proof.
  intros t Ht c name value c' H. apply (set_sem_exact parses t c name value c'); [|exact H].
  destruct (table_ok_parts t (C11_tables_ok t Ht)) as (Hok & _). exact Hok.
Qed.

Theorem C11_every_public_parameter_settable : forall t, In t indicator_tables ->
  forall f, In f (pub_fields t) -> assoc f (it_arms t) <> None.
Proof.
  intros t Ht f Hf. destruct (table_ok_parts t (C11_tables_ok t Ht)) as (_ & Hc & _).
  unfold set_complete in Hc. rewrite forallb_forall in Hc. specialize (Hc f Hf).
  apply mem_in in Hc. apply in_map_iff in Hc. destruct Hc as ((k & v) & Hk & Hin).
  cbn [fst] in Hk. subst k. clear - Hin. induction (it_arms t) as [|[a b] r IH]; [contradiction|].
  simpl. destruct (String.eqb f a) eqn:E; [discriminate|]. destruct Hin as [[= -> ->]|Hin]; [|auto].
  rewrite String.eqb_refl in E. discriminate.
Qed.

(** IndicatorResult::new (result.rs): at most SIZE = 4 values and 4 signals are kept - the announced lengths are min(4, count) and
    the slices are the leading inputs, for slices of every length (the harness runs the implementation for all counts 0..8) *)
Definition ires_new {A B} (vals : list A) (sigs : list B) : list A * list B := (firstn 4 vals, firstn 4 sigs).
Theorem C11_result_new_shape {A B} (vals : list A) (sigs : list B) :
  let r := ires_new vals sigs in
  length (fst r) = Nat.min 4 (length vals) /\ length (snd r) = Nat.min 4 (length sigs) /\
  (forall i, (i < Nat.min 4 (length vals))%nat -> nth_error (fst r) i = nth_error vals i) /\
  (forall i, (i < Nat.min 4 (length sigs))%nat -> nth_error (snd r) i = nth_error sigs i).
Proof.
  cbv zeta. unfold ires_new. cbn [fst snd]. rewrite !firstn_length. repeat split; try reflexivity.
  - intros i Hi. rewrite Yata.Base.Prelude.nth_error_firstn. destruct (Nat.ltb_spec i 4); [reflexivity|lia].
  - intros i Hi. rewrite Yata.Base.Prelude.nth_error_firstn. destruct (Nat.ltb_spec i 4); [reflexivity|lia].
Qed.
