(** C03 — Recursive methods follow their documented recurrences.
    Only statements and [exact]; proofs in Proofs/Recursive.v (NumR). *)
From Yata Require Import Base.Prelude Base.Num Base.NumR Core.Window Core.Candle
  Spec.Hist Spec.MethodDefs Methods.Basic Proofs.MethodsCommon Proofs.Recursive Proofs.Tsi Proofs.Vidya.
From Yata Require Import Base.NumF64.
From Coq Require Import Reals Floats.
Open Scope Z_scope.

Section C03.
Context {pw : PW}.
Local Notation R := (@F NumR).

(** the output at every step is the recurrence unrolled over the whole stream
    so far ([rev (xs ++ [x])]: newest first), started from the construction value *)
Definition recurrence_correct {S} (new : Z -> R -> outcome S) (next : S -> R -> S * R)
    (def : Z -> R -> list R -> R) (lo hi : Z) : Prop :=
  forall n v xs x, lo <= n <= hi ->
    exists s0, new n v = Ok s0 /\
      snd (next (steps next s0 xs) x) = def n v (rev (xs ++ [x])).

Theorem C03_ema : recurrence_correct ema_new ema_next (ema_def (N := NumR)) 1 (pmax - 1).
Proof. exact ema_correct. Qed.
Theorem C03_dma : recurrence_correct dma_new dma_next (dma_def (N := NumR)) 1 (pmax - 1).
Proof. exact dma_correct. Qed.
Theorem C03_tma : recurrence_correct tma_new tma_next (tma_def (N := NumR)) 1 (pmax - 1).
Proof. exact tma_correct. Qed.
Theorem C03_dema : recurrence_correct dema_new dema_next (dema_def (N := NumR)) 1 (pmax - 1).
Proof. exact dema_correct. Qed.
Theorem C03_tema : recurrence_correct tema_new tema_next (tema_def (N := NumR)) 1 (pmax - 1).
Proof. exact tema_correct. Qed.
Theorem C03_rma : recurrence_correct rma_new rma_next (rma_def (N := NumR)) 1 pmax.
Proof. exact rma_correct. Qed.
(** WSMA(n) = EMA(2n-1) has smoothing 1/n; PeriodType::MAX is odd (2^W - 1) *)
Theorem C03_wsma : pmax / 2 * 2 + 1 = pmax ->
  recurrence_correct wsma_new wsma_next (wsma_def (N := NumR)) 1 (pmax / 2).
Proof. intros H n v xs x Hn. exact (wsma_correct H n v xs x Hn). Qed.
Theorem C03_wsma_alpha n : 1 <= n ->
  MethodDefs.ema_alpha (N := NumR) (n * 2 - 1) = MethodDefs.rma_alpha n.
Proof. exact (wsma_alpha n). Qed.
Theorem C03_tr (c0 : candle (N := NumR)) cs c :
  snd (tr_next (steps tr_next (tr_new c0) cs) c) = tr_def (hget c0 (rev (cs ++ [c]))).
Proof. exact (tr_correct c0 cs c). Qed.
Theorem C03_heikin_ashi (c0 : candle (N := NumR)) cs c :
  snd (ha_next (steps ha_next (ha_new c0) cs) c) = ha_def c0 (rev cs) c.
Proof. exact (ha_correct c0 cs c). Qed.
Theorem C03_integral_cumulative v xs x : 2 <= pmax ->
  exists s0, integral_new (N := NumR) 0 v = Ok s0 /\
    snd (integral_next (steps integral_next s0 xs) x) = cumsum (rev (xs ++ [x])).
Proof. exact (integral0_correct v xs x). Qed.
(** TSI: EMA_short(EMA_long(momentum)) / EMA_short(EMA_long(|momentum|)), 0 when the denominator is not positive *)
Theorem C03_tsi short long (v : R) xs x : 1 <= short <= pmax - 1 -> 1 <= long <= pmax - 1 ->
  exists s0, tsi_new short long v = Ok s0 /\
    snd (tsi_next (steps tsi_next s0 xs) x) = tsi_def short long v (rev (xs ++ [x])).
Proof. exact (tsi_correct short long v xs x). Qed.
(** Vidya in exact arithmetic: EMA whose factor is scaled by |CMO| of the last n changes; the input itself on a flat window
    (on binary64 this is refuted below: KF-C03-vidya-residue) *)
Theorem C03_vidya n (v : R) xs x : 1 <= n <= pmax - 1 ->
  exists s0, vidya_new n v = Ok s0 /\
    snd (vidya_next (steps vidya_next s0 xs) x) = vidya_rec (Z.to_nat n) v (rev (xs ++ [x])).
Proof. exact (vidya_correct n v xs x). Qed.
(** windowless ADI: running total of clv * volume *)
Theorem C03_adi_cumulative (c0 : candle (N := NumR)) cs c : 2 <= pmax ->
  exists s0, adi_new 0 c0 = Ok s0 /\
    snd (adi_next (steps adi_next s0 cs) c) = cumsum (map clvv (rev (cs ++ [c]))).
Proof. exact (adi0_correct c0 cs c). Qed.
End C03.

(** Known finding KF-C03-vidya-residue (binary64, by kernel computation): after
    a move the running sums [up_sum]/[dn_sum] keep a rounding residue, so on an
    exactly flat window (both of the last 2 changes are 0, where the documented
    recurrence returns the input itself) Vidya(2) still smooths:
    x0 = 0.5, stream -0.06 0.14 0.48 0.48 0.48, next input 0.48 -> output <> 0.48.
    The full-strength statement (vidya = vidya_rec on binary64) is therefore
    false of the faithful model; in exact arithmetic the sums return to 0. *)
Example C03_vidya_flat_refuted :
  let x := (0x1.eb851eb851eb8p-2)%float in
  let xs := [(-0x1.eb851eb851eb8p-5)%float; (0x1.1eb851eb851ecp-3)%float; x; x; x] in
  exists s0, vidya_new (pw := PW8) (N := NumF64) 2 (0x1p-1)%float = Ok s0 /\
    vidya_rec (N := NumF64) 2 (0x1p-1)%float (x :: rev xs) = x /\
    PrimFloat.eqb (snd (vidya_next (pw := PW8) (steps (vidya_next (pw := PW8)) s0 xs) x)) x = false.
Proof. eexists. split; [reflexivity|]. split; vm_compute; reflexivity. Qed.
