(** C06 — Indicator signals fire exactly under their documented conditions. *)
From Yata Require Import Base.Prelude Base.Num Base.NumR Core.Window Core.Candle Core.Action
  Spec.Hist Methods.Basic Methods.Select Indicators.Common Indicators.Set1 Indicators.Set3 Proofs.Detectors Proofs.SignalProofs Proofs.SignalProofs2.
Open Scope Z_scope.

Section C06.
Context {pw : PW}.
Local Notation R := (@F NumR).

(** every indicator signal that is a default Cross of two returned series is the definitional crossing
    (previous difference negative/positive, current non-negative/non-positive; first difference 0) *)
Theorem C06_cross_signal (ps : list (R * R)) p :
  snd (cross_next (steps cross_next (f0, f0) ps) p) = cross_def (hget (f0, f0) (rev (ps ++ [p]))).
Proof. exact (cross_default_correct ps p). Qed.

(** MACD: signal 1 = crossing of (macd, signal line), signal 2 = crossing of (macd, 0), over the values it returned *)
Theorem C06_macd_signals (s0 : macd_st (N := NumR)) cs k :
  md_cross1 s0 = (f0, f0) -> md_cross2 s0 = (f0, f0) ->
  let s := steps macd_next s0 cs in
  let ps := macd_pairs s0 cs in
  let p := macd_vals s k in
  snd (snd (macd_next s k)) =
    [cross_def (hget (f0, f0) (rev (ps ++ [p])));
     cross_def (hget (f0, f0) (rev (map (fun q => (fst q, f0)) ps ++ [(fst p, f0)])))].
Proof. exact (macd_signals_correct s0 cs k). Qed.
End C06.

(** signals that are a function of the values returned at the same step: the documented rule holds in EVERY state
    (hence after every stream), on every carrier including binary64 *)
Section C06b.
Context {pw : PW} {N : Num}.
Theorem C06_donchian (s : donch_st) (k : candle) :
  let r := snd (donch_next s k) in
  sigs r = [a_from_i8 (b2z (fge (c_high k) (vals r 2)) - b2z (fle (c_low k) (vals r 0)))].
Proof. exact (donchian_signal s k). Qed.
Theorem C06_price_channel (s : pch_st) (k : candle) :
  let r := snd (pch_next s k) in
  sigs r = [a_from_i8 (b2z (fge (c_high k) (vals r 0)) - b2z (fle (c_low k) (vals r 1)))].
Proof. exact (price_channel_signal s k). Qed.
Theorem C06_envelopes (s : env_st) (k : candle) :
  let r := snd (env_next s k) in
  sigs r = [a_from_i8 (b2z (flt (vals r 2) (vals r 1)) - b2z (fgt (vals r 2) (vals r 0)))].
Proof. exact (envelopes_signal s k). Qed.
Theorem C06_momentum_index (s : momi_st) (k : candle) :
  let r := snd (momi_next s k) in
  sigs r = [a_from_i8 (b2z (fgt (vals r 0) f0 && fgt (vals r 1) f0) - b2z (flt (vals r 0) f0 && flt (vals r 1) f0))].
Proof. exact (momentum_index_signal s k). Qed.
Theorem C06_bollinger (s : boll_st) (k : candle) :
  let r := snd (boll_next s k) in
  let src := c_source k (bc_source (bo_cfg s)) in let range := fsub (vals r 0) (vals r 2) in
  let rel := if feq range f0 then flit 1 2 else fdiv (fsub src (vals r 2)) range in
  sigs r = [a_from_f (ffma rel f2 (fneg f1))].
Proof. exact (bollinger_signal s k). Qed.
Theorem C06_parabolic_sar (s : psar_st) (k : candle) :
  let s' := fst (psar_next s k) in
  sigs (snd (psar_next s k)) = [a_from_i8 (b2z (negb (ps_prev_trend s =? ps_trend s')) * ps_trend s')] /\
  ps_prev_trend s' = ps_trend s' /\ vals (snd (psar_next s k)) 1 = fofZ (ps_trend s').
Proof. exact (psar_signal s k). Qed.
End C06b.

(** Known finding KF-C06-keltner-polarity: the documentation of KeltnerChannel says "when the source goes
    above the upper bound, returns full buy"; on the faithful model (binary64, kernel computation)
    KeltnerChannel(sma-2, sigma 0.5) built from a flat candle at 10 and fed a close of 9 then a close of 30
    (source 30 > upper bound 25, previous source 9 < upper bound 9.75) returns a full SELL. *)
From Yata Require Import Base.NumF64 Core.Strings Indicators.Set3.
From Coq Require Import Floats.
Example C06_keltner_polarity_refuted :
  let c0 := mkCandle (N := NumF64) 10%float 10%float 10%float 10%float 1%float in
  let k1 := mkCandle (N := NumF64) 10%float 10%float 9%float 9%float 1%float in
  let k2 := mkCandle (N := NumF64) 9%float 30%float 9%float 30%float 1%float in
  exists s0, kelt_init (pw := PW8) (N := NumF64) (MAcfg KSMA 2) (0x1p-1)%float SClose c0 = Ok s0 /\
    let s1 := fst (kelt_next (pw := PW8) s0 k1) in
    let r1 := snd (kelt_next (pw := PW8) s0 k1) in
    let r2 := snd (kelt_next (pw := PW8) s1 k2) in
    (* step 1: source 9 below the upper bound; step 2: source 30 above the upper bound 25 *)
    match fst r1, fst r2 with
    | [src1; up1; _], [src2; up2; _] => PrimFloat.ltb src1 up1 = true /\ PrimFloat.ltb up2 src2 = true
    | _, _ => False
    end /\ snd r2 = [a_sell_all].
Proof. eexists. split; [reflexivity|]. vm_compute. repeat split. Qed.

(** Known finding KF-C06-tsx-signals: TrendStrengthIndex documents "when the main value crosses the upper zone downwards,
    gives full NEGATIVE #1 signal"; on the faithful model (binary64, kernel computation) TrendStrengthIndex(period 3,
    zone 0.5, reverse_offset 1) built from a flat candle at 2 and fed closes 6 then 4 has value > 0.5 after the first and
    < 0.5 after the second candle - a downward crossing of the upper zone - and returns a full BUY.  (Signal #2 has the same
    inverted polarity and, in addition, tests the zone against a PRICE of the window instead of the main value.) *)
From Yata Require Import Base.NumF64 Indicators.Set5.
From Coq Require Import Floats.
Theorem C06_trend_strength_polarity_refuted :
  let c0 := mkCandle (N := NumF64) 2%float 2%float 2%float 2%float 1%float in
  let k1 := mkCandle (N := NumF64) 6%float 6%float 6%float 6%float 1%float in
  let k2 := mkCandle (N := NumF64) 4%float 4%float 4%float 4%float 1%float in
  exists s0, tsx_init (pw := PW8) (N := NumF64) 3 (0x1p-1)%float 1 SClose c0 = Ok s0 /\
    let s1 := fst (tsx_next (pw := PW8) s0 k1) in
    let r1 := snd (tsx_next (pw := PW8) s0 k1) in
    let r2 := snd (tsx_next (pw := PW8) s1 k2) in
    match fst r1, fst r2, snd r2 with
    | [v1], [v2], sg1 :: _ => PrimFloat.ltb (0x1p-1)%float v1 = true /\ PrimFloat.ltb v2 (0x1p-1)%float = true /\ sg1 = a_buy_all
    | _, _, _ => False
    end.
Proof. eexists. split; [reflexivity|]. vm_compute. repeat split. Qed.
