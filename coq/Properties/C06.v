(** C06 — Indicator signals fire exactly under their documented conditions. *)
From Yata Require Import Base.Prelude Base.Num Base.NumR Core.Window Core.Candle Core.Action
  Spec.Hist Spec.MethodDefs Spec.IndicatorDefs Methods.Basic Methods.Select Indicators.Common Indicators.Set1 Indicators.Set2 Indicators.Set3 Indicators.Set4 Indicators.Set5 Proofs.Detectors Proofs.SignalProofs Proofs.SignalProofs2 Proofs.SignalProofs3 Proofs.SignalProofs4 Proofs.SignalProofs5 Proofs.SignalProofs6 Proofs.SignalProofs7 Proofs.SignalProofs8 Proofs.SignalProofs9 Proofs.SignalProofs10 Proofs.SignalProofs11 Proofs.SignalProofs12 Proofs.SignalProofs13 Proofs.SignalProofs14 Proofs.Selection Proofs.MAProofs.
Open Scope Z_scope.

Section C06.
Context {pw : PW}.
Local Notation R := (@F NumR).

(** every indicator signal that is a default Cross of two returned series is the definitional crossing
    (previous difference negative/positive, current non-negative/non-positive; first difference 0) *)
Theorem C06_cross_signal (ps : list (R * R)) p :
  snd (cross_next (steps cross_next (f0, f0) ps) p) = cross_def (hget (f0, f0) (rev (ps ++ [p]))).
Proof. exact (cross_default_correct ps p). Qed.

(** MACD: signal 1 = crossing of (macd, signal line), signal 2 = crossing of (macd, 0), over the values it returned *)
Theorem C06_macd_signals (s0 : macd_st (N := NumR)) cs k :
  md_cross1 s0 = (f0, f0) -> md_cross2 s0 = (f0, f0) ->
  let s := steps macd_next s0 cs in
  let ps := macd_pairs s0 cs in
  let p := macd_vals s k in
  snd (snd (macd_next s k)) =
    [cross_def (hget (f0, f0) (rev (ps ++ [p])));
     cross_def (hget (f0, f0) (rev (map (fun q => (fst q, f0)) ps ++ [(fst p, f0)])))].
Proof. exact (macd_signals_correct s0 cs k). Qed.
(** ---- signals that are crossings of the indicator's OWN returned values: after ANY stream [cs], at the step that consumes
    [k], the signal is the definitional crossing (C14) of the history of pairs formed from every result returned so far
    ([pair_hist next s0 cs k p0 pf]: newest first, continued into the past by the construction pair [p0]).
    [v0_zero r] = (value 0, 0), [v0_v1 r] = (value 0, value 1).  Proved once generically ([det_output]) and instantiated. *)
Theorem C06_detector_generic {S D : Type} (next : S -> candle (N := NumR) -> S * iresult (N := NumR))
  (dnext : D -> R * R -> D * action) (ddef : (nat -> R * R) -> action) (dget : S -> D) (pf : iresult (N := NumR) -> R * R)
  (Good : S -> Prop) :
  (forall s k, Good s -> Good (fst (next s k))) ->
  (forall s k, Good s -> dget (fst (next s k)) = fst (dnext (dget s) (pf (snd (next s k))))) ->
  forall s0 p0, Good s0 ->
  (forall ps p, snd (dnext (steps dnext (dget s0) ps) p) = ddef (hget p0 (rev (ps ++ [p])))) ->
  forall cs k, snd (dnext (dget (steps next s0 cs)) (pf (snd (next (steps next s0 cs) k)))) =
               ddef (hget p0 (rev (map pf (run next s0 (cs ++ [k]))))).
Proof. exact (det_output next dnext ddef dget pf Good). Qed.
Theorem C06_elders_force_index (s0 : efi_st (N := NumR)) cs k : ef_cross s0 = (f0, f0) ->
  sigs (snd (efi_next (steps efi_next s0 cs) k)) = [cross_def (pair_hist efi_next s0 cs k (f0, f0) v0_zero)].
Proof. exact (efi_signal_correct s0 cs k). Qed.
Theorem C06_chaikin_money_flow (s0 : cmf_st (N := NumR)) cs k : cf_cross s0 = (f0, f0) ->
  sigs (snd (cmf_next (steps cmf_next s0 cs) k)) = [cross_def (pair_hist cmf_next s0 cs k (f0, f0) v0_zero)].
Proof. exact (cmf_signal_correct s0 cs k). Qed.
Theorem C06_ease_of_movement (s0 : eom_st (N := NumR)) cs k : eo_cross s0 = (f0, f0) ->
  sigs (snd (eom_next (steps eom_next s0 cs) k)) = [cross_def (pair_hist eom_next s0 cs k (f0, f0) v0_zero)].
Proof. exact (eom_signal_correct s0 cs k). Qed.
Theorem C06_chaikin_oscillator (s0 : co_st (N := NumR)) cs k : co_cross s0 = (f0, f0) ->
  sigs (snd (co_next (steps co_next s0 cs) k)) = [cross_def (pair_hist co_next s0 cs k (f0, f0) v0_zero)].
Proof. exact (chaikin_oscillator_signal_correct s0 cs k). Qed.
Theorem C06_know_sure_thing (s0 : kst_st (N := NumR)) cs k : ks_cross s0 = (f0, f0) ->
  sigs (snd (kst_next (steps kst_next s0 cs) k)) = [cross_def (pair_hist kst_next s0 cs k (f0, f0) v0_v1)].
Proof. exact (kst_signal_correct s0 cs k). Qed.
Theorem C06_klinger_volume_oscillator (s0 : kvo_st (N := NumR)) cs k : kv_c1 s0 = (f0, f0) -> kv_c2 s0 = (f0, f0) ->
  sigs (snd (kvo_next (steps kvo_next s0 cs) k)) =
  [cross_def (pair_hist kvo_next s0 cs k (f0, f0) v0_zero); cross_def (pair_hist kvo_next s0 cs k (f0, f0) v0_v1)].
Proof. exact (kvo_signals_correct s0 cs k). Qed.
Theorem C06_coppock_curve (s0 : cop_st (N := NumR)) cs k : cp_c1 s0 = (f0, f0) -> cp_c2 s0 = (f0, f0) ->
  let st := steps cop_next s0 cs in let r := snd (cop_next st k) in
  sigs r = [cross_def (pair_hist cop_next s0 cs k (f0, f0) v0_zero); snd (reversal_next (cp_pivot st) (vals r 0));
            cross_def (pair_hist cop_next s0 cs k (f0, f0) v0_v1)].
Proof. exact (coppock_signals_correct s0 cs k). Qed.
Theorem C06_trix (s0 : trix_st (N := NumR)) (v : R) cs k :
  tx_c1 s0 = (cross_new (v, v), cross_new (v, v)) -> tx_c2 s0 = (cross_new (v, v), cross_new (v, v)) ->
  let st := steps trix_next s0 cs in let r := snd (trix_next st k) in
  sigs r = [snd (reversal_next (tx_rev st) (vals r 0)); cross_def (pair_hist trix_next s0 cs k (v, v) v0_v1);
            cross_def (pair_hist trix_next s0 cs k (v, v) v0_zero)].
Proof. exact (trix_signals_correct s0 v cs k). Qed.
Theorem C06_relative_vigor_index (s0 : rvi_st (N := NumR)) cs k : rv_cross s0 = (f0, f0) ->
  let r := snd (rvi_next (steps rvi_next s0 cs) k) in
  let s1 := a_analog (cross_def (pair_hist rvi_next s0 cs k (f0, f0) v0_v1)) in let z := rv_zone s0 in
  sigs r = [a_from_i8 s1;
            a_from_i8 (b2z ((s1 <? 0) && fgt (vals r 0) z && fgt (vals r 1) z) - b2z ((0 <? s1) && flt (vals r 0) (fneg z) && flt (vals r 1) (fneg z)))].
Proof. exact (rvi_signals_correct s0 cs k). Qed.
Theorem C06_smi_ergodic (s0 : smi_st (N := NumR)) cs k : sm_cross s0 = (f0, f0) ->
  let r := snd (smi_next (steps smi_next s0 cs) k) in
  let x := a_analog (cross_def (pair_hist smi_next s0 cs k (f0, f0) v0_v1)) in
  sigs r = [a_from_i8 (b2z ((0 <? x) && flt (vals r 1) (fneg (sm_zone s0))) - b2z ((x <? 0) && fgt (vals r 1) (sm_zone s0)))].
Proof. exact (smi_signal_correct s0 cs k). Qed.
Theorem C06_awesome_oscillator_zero_cross (s0 : ao_st (N := NumR)) cs k : ao_cross s0 = (f0, f0) ->
  nth 1 (sigs (snd (ao_next (steps ao_next s0 cs) k))) ANone = cross_def (pair_hist ao_next s0 cs k (f0, f0) v0_zero).
Proof. exact (ao_zero_cross_signal_correct s0 cs k). Qed.
Theorem C06_chande_momentum_oscillator (s0 : cmo_st (N := NumR)) cs k : cm_cu s0 = f0 -> cm_ca s0 = f0 ->
  let z := cm_zone s0 in
  sigs (snd (cmo_next (steps cmo_next s0 cs) k)) =
  [a_sub (cross_under_def (pair_hist cmo_next s0 cs k (f0, f0) (vi_const 0 (fneg z))))
         (cross_above_def (pair_hist cmo_next s0 cs k (f0, f0) (vi_const 0 z)))].
Proof. exact (cmo_signal_correct s0 cs k). Qed.
(** as coded: buy under the lower band, sell above the upper band - the documentation says the opposite (KF-C06-keltner-polarity) *)
Theorem C06_keltner_as_coded (s0 : kelt_st (N := NumR)) cs k : kl_cu s0 = f0 -> kl_ca s0 = f0 ->
  sigs (snd (kelt_next (steps kelt_next s0 cs) k)) =
  [a_sub (cross_under_def (pair_hist kelt_next s0 cs k (f0, f0) (vi_vj 0 2)))
         (cross_above_def (pair_hist kelt_next s0 cs k (f0, f0) (vi_vj 0 1)))].
Proof. exact (keltner_signal_correct s0 cs k). Qed.
Theorem C06_true_strength_index (s0 : tsii_st (N := NumR)) cs k : ti_cu s0 = f0 -> ti_ca s0 = f0 -> ti_c1 s0 = (f0, f0) -> ti_c2 s0 = (f0, f0) ->
  let z := ti_zone s0 in
  sigs (snd (tsii_next (steps tsii_next s0 cs) k)) =
  [a_sub (cross_under_def (pair_hist tsii_next s0 cs k (f0, f0) (vi_const 0 (fneg z))))
         (cross_above_def (pair_hist tsii_next s0 cs k (f0, f0) (vi_const 0 z)));
   cross_def (pair_hist tsii_next s0 cs k (f0, f0) v0_zero); cross_def (pair_hist tsii_next s0 cs k (f0, f0) v0_v1)].
Proof. exact (tsi_signals_correct s0 cs k). Qed.
Theorem C06_aroon_cross (s0 : aroon_st (N := NumR)) cs k : ar_cross s0 = (f0, f0) ->
  nth 0 (sigs (snd (aroon_next (steps aroon_next s0 cs) k))) ANone = cross_def (pair_hist aroon_next s0 cs k (f0, f0) v0_v1).
Proof. exact (aroon_cross_signal_correct s0 cs k). Qed.
Theorem C06_stochastic_oscillator (s0 : sto_st (N := NumR)) cs k :
  so_ca1 s0 = f0 -> so_cu1 s0 = f0 -> so_ca2 s0 = f0 -> so_cu2 s0 = f0 -> so_cross s0 = (f0, f0) ->
  let z := sc_zone (so_cfg s0) in let u := so_upper s0 in
  sigs (snd (sto_next (steps sto_next s0 cs) k)) =
  [a_sub (cross_above_def (pair_hist sto_next s0 cs k (f0, f0) (vi_const 0 z))) (cross_under_def (pair_hist sto_next s0 cs k (f0, f0) (vi_const 0 u)));
   a_sub (cross_above_def (pair_hist sto_next s0 cs k (f0, f0) (vi_const 1 z))) (cross_under_def (pair_hist sto_next s0 cs k (f0, f0) (vi_const 1 u)));
   cross_def (pair_hist sto_next s0 cs k (f0, f0) v0_v1)].
Proof. exact (stochastic_signals_correct s0 cs k). Qed.
Theorem C06_money_flow_index (s0 : mfi_st (N := NumR)) cs k : mf_cu s0 = (f0, f0) -> mf_cl s0 = (f0, f0) ->
  let xu := a_to_i8 (cross_def (pair_hist mfi_next s0 cs k (f0, f0) (vi_vj 1 0))) in
  let xl := a_to_i8 (cross_def (pair_hist mfi_next s0 cs k (f0, f0) (vi_vj 1 2))) in
  sigs (snd (mfi_next (steps mfi_next s0 cs) k)) = [a_from_i8 (b2z (xl <? 0) - b2z (0 <? xu)); a_from_i8 (b2z (0 <? xl) - b2z (xu <? 0))].
Proof. exact (mfi_signals_correct s0 cs k). Qed.
Theorem C06_relative_strength_index (s0 : rsi_st (N := NumR)) cs k :
  let z := rc_zone (rs_cfg s0) in let half := flit 1 2 in
  rs_cross_lower s0 = (cross_new (half, z), cross_new (half, z)) ->
  rs_cross_upper s0 = (cross_new (half, fsub f1 z), cross_new (half, fsub f1 z)) ->
  let oversold := a_analog (cross_def (pair_hist rsi_next s0 cs k (half, z) (vi_const 0 z))) in
  let overbought := a_analog (cross_def (pair_hist rsi_next s0 cs k (half, fsub f1 z) (vi_const 0 (fsub f1 z)))) in
  sigs (snd (rsi_next (steps rsi_next s0 cs) k)) =
  [a_from_i8 (b2z (oversold <? 0) - b2z (0 <? overbought)); a_from_i8 (b2z (0 <? oversold) - b2z (overbought <? 0))].
Proof. exact (rsi_signals_correct s0 cs k). Qed.
(** as coded (the documentation states the opposite polarity: KF-C06-tsx-signals) *)
Theorem C06_trend_strength_cross_as_coded (s0 : tsx_st (N := NumR)) cs k :
  let z := tz_zone s0 in tz_cu s0 = cross_new (f0, z) -> tz_ca s0 = cross_new (f0, fneg z) ->
  nth 0 (sigs (snd (tsx_next (steps tsx_next s0 cs) k))) ANone =
  a_sub (cross_under_def (pair_hist tsx_next s0 cs k (f0, z) (vi_const 0 z)))
        (cross_above_def (pair_hist tsx_next s0 cs k (f0, fneg z) (vi_const 0 (fneg z)))).
Proof. exact (tsx_cross_signal_as_coded s0 cs k). Qed.
(** CommodityChannelIndex: the signal is exactly the zone-entry rule on the current and the previously returned value
    ([cci_rule z v last] = [v < -z and last >= -z] - [v > z and last <= z]); the latch in the state never suppresses a signal *)
Theorem C06_commodity_channel_index period (zone : R) src (c0 : candle (N := NumR)) cs c s0 : ccii_init period zone src c0 = Ok s0 ->
  let st := steps ccii_next s0 cs in let r := snd (ccii_next st c) in
  let last := match rev (run ccii_next s0 cs) with [] => f0 | q :: _ => vals q 0 end in
  sigs r = [a_from_i8 (cci_rule zone (vals r 0) last)].
Proof. exact (cci_signal_correct period zone src c0 cs c s0). Qed.
(** IchimokuCloud [tenkan; kijun; span a; span b]: #1 = crossing of (tenkan, kijun), #2 = crossing of (source, kijun) - a detector
    fed a pair that depends on the candle, [det_output2] - each kept only as a full signal in the direction of the price's
    position relative to the cloud *)
Theorem C06_ichimoku_cloud (s0 : ichi_st (N := NumR)) cs k : ic_c1 s0 = (f0, f0) -> ic_c2 s0 = (f0, f0) ->
  let src := ic_source s0 in let r := snd (ichi_next (steps ichi_next s0 cs) k) in
  let x1 := cross_def (hget (f0, f0) (rev (cpairs ichi_next ichi_p1 s0 (cs ++ [k])))) in
  let x2 := cross_def (hget (f0, f0) (rev (cpairs ichi_next (ichi_p2 src) s0 (cs ++ [k])))) in
  sigs r = [ichi_sig (ichi_above src k r) (ichi_below src k r) x1; ichi_sig (ichi_above src k r) (ichi_below src k r) x2].
Proof. exact (ichimoku_signals_correct s0 cs k). Qed.
(** HullMovingAverage: a PIVOT signal end to end - for every stream that begins with the candle the instance was created from,
    the signal is the definitional reversal (C14: the newest extreme of the last left+right+1 values sits exactly `right` steps
    back) of the series of Hull averages the indicator has returned *)
Theorem C06_hull_moving_average_pivot period lft right src (c0 : candle (N := NumR)) cs c :
  2 < period <= pmax - 1 -> 1 <= lft -> 1 <= right -> lft + right <= pmax - 2 ->
  exists s0, hmai_init period lft right src c0 = Ok s0 /\
    sigs (snd (hmai_next (steps hmai_next s0 (c0 :: cs)) c)) =
    let h := hget (c_source c0 src) (series (hull_of period src c0) (rev ((c0 :: cs) ++ [c]))) in
    let L := Z.to_nat (lft + right + 1) in let r := Z.to_nat right in
    [a_sub (if Nat.eqb (argbest flt h L) r then a_buy_all else ANone) (if Nat.eqb (argbest fgt h L) r then a_buy_all else ANone)].
Proof. exact (hull_signal_correct period lft right src c0 cs c). Qed.
(** the same for Trix (#1: reversal with left = right = 1 of the Trix line) and CoppockCurve (#2: reversal (s2_left, s2_right) of
    the Coppock line); [pivot_output] is the generic statement *)
Theorem C06_trix_pivot p1 (signal : ma_cfg) src (c0 : candle (N := NumR)) cs c :
  2 < p1 <= pmax - 1 -> 1 < ma_period signal -> ma_len_ok signal -> 4 <= pmax ->
  exists s0, trix_init p1 signal src c0 = Ok s0 /\
    nth 0 (sigs (snd (trix_next (steps trix_next s0 (c0 :: cs)) c))) ANone =
    let h := hget f0 (series (trix_of p1 signal src c0) (rev ((c0 :: cs) ++ [c]))) in
    a_sub (if Nat.eqb (argbest flt h 3) 1 then a_buy_all else ANone) (if Nat.eqb (argbest fgt h 3) 1 then a_buy_all else ANone).
Proof. exact (trix_pivot_signal_correct p1 signal src c0 cs c). Qed.
Theorem C06_coppock_pivot (cfg : cop_cfg) (c0 : candle (N := NumR)) cs c : cop_validate cfg = true -> cc_left cfg + cc_right cfg <= pmax - 2 ->
  ma_len_ok (cc_ma1 cfg) -> ma_len_ok (cc_s3 cfg) ->
  exists s0, cop_init (N := NumR) cfg c0 = Ok s0 /\
    nth 1 (sigs (snd (cop_next (steps cop_next s0 (c0 :: cs)) c))) ANone =
    let h := hget f0 (series (cop_of cfg c0) (rev ((c0 :: cs) ++ [c]))) in
    let L := Z.to_nat (cc_left cfg + cc_right cfg + 1) in let r := Z.to_nat (cc_right cfg) in
    a_sub (if Nat.eqb (argbest flt h L) r then a_buy_all else ANone) (if Nat.eqb (argbest fgt h L) r then a_buy_all else ANone).
Proof. exact (coppock_pivot_signal_correct cfg c0 cs c). Qed.
(** Aroon #2 (edge): +1 exactly when Aroon-up is 1 (the newest candle sets the highest high of the window), -1 exactly when
    Aroon-down is 1 - in every state with a positive period *)
Theorem C06_aroon_edge (s : aroon_st (N := NumR)) (k : candle (N := NumR)) : 0 < ar_period s ->
  let r := snd (aroon_next s k) in
  nth 1 (sigs r) ANone = a_from_i8 (b2z (feq (vals r 0) f1) - b2z (feq (vals r 1) f1)).
Proof. exact (aroon_edge_signal s k). Qed.
(** PivotReversalStrategy: for every stream that begins with the construction candle the signal is the documented rule on
    definitional quantities of the whole history: [up_piv]/[lo_piv] (the bar [right] bars back carries the highest high / lowest
    low of the last left+right+1 bars, ties to the newer bar; never on the first bar), the latched prices [prs_hprice]/[prs_lprice]
    (high / low of that bar at the most recent pivot; 0 before the first one):
      signal = sign( [lo_piv or low >= latched low] - [up_piv or high <= latched high] ) *)
Theorem C06_pivot_reversal_strategy lft right (c0 : candle (N := NumR)) s0 cs c :
  1 <= lft -> 1 <= right -> lft + right <= pmax - 2 -> prs_init lft right c0 = Ok s0 ->
  sigs (snd (prs_next (steps prs_next s0 (c0 :: cs)) c)) = [prs_signal lft right c0 (rev ((c0 :: cs) ++ [c]))].
Proof. intros Hl Hr Hlr Hi. exact (prs_signal_correct lft right c0 Hl Hr Hlr s0 Hi cs c). Qed.
(** WoodiesCCI: the bar counter held by the instance is, after every stream, the documented function of the trend values returned
    so far - restart at +-1 on a definitional zero crossing of the trend CCI, otherwise move by the sign of the trend value - and
    the signal fires exactly when it reaches +-s1_lag *)
Theorem C06_woodies_cci (s0 : wcci_st (N := NumR)) cs k : wc_cross s0 = (f0, f0) ->
  sigs (snd (wcci_next (steps wcci_next s0 cs) k)) =
  let c := wcci_count s0 (k :: rev cs) in [a_from_i8 (b2z (Z.abs c =? wc_lag s0) * Z.sgn c)].
Proof. intros H0. exact (wcci_signal_correct s0 H0 cs k). Qed.
(** Kaufman: the crossing computed at every step is the definitional crossing of (price, KAMA) over the whole history; without a
    filter it is the signal; with a filter (filter_period > 1) it is held back and released by the documented rule [kauf_rule]
    (released when KAMA has moved from its value at the crossing by more than k * StDev(KAMA); replaced by a newer crossing) -
    the pending signal and reference value held by the instance are that function of the history, for every stream length *)
Theorem C06_kaufman_unfiltered (s0 : kauf_st (N := NumR)) cs k : ka_cross s0 = (f0, f0) -> kf_filter (ka_cfg s0) <= 1 ->
  sigs (snd (kauf_next (steps kauf_next s0 cs) k)) = [kauf_cross s0 cs k].
Proof. intros H0 Hf. exact (kaufman_unfiltered_signal s0 H0 cs k Hf). Qed.
Theorem C06_kaufman_filtered (s0 : kauf_st (N := NumR)) cs k : ka_cross s0 = (f0, f0) -> 1 < kf_filter (ka_cfg s0) ->
  nth 0 (sigs (snd (kauf_next (steps kauf_next s0 cs) k))) ANone = kauf_signal s0 (k :: rev cs).
Proof. intros H0 Hf. exact (kaufman_filtered_signal s0 H0 cs k Hf). Qed.
(** Aroon #3: the two counters are the lengths of the current runs of consecutive results in the up-over/down-under zone (resp.
    down-over/up-under); the signal is their difference over [over_zone_period] *)
Theorem C06_aroon_trend_strength (s0 : aroon_st (N := NumR)) cs k :
  nth 2 (sigs (snd (aroon_next (steps aroon_next s0 cs) k))) ANone =
  let rs := rev (run aroon_next s0 (cs ++ [k])) in
  a_from_f (fdiv (fofZ (run_len (aroon_up_zone (ar_zone s0)) (ar_up s0) rs - run_len (aroon_down_zone (ar_zone s0)) (ar_down s0) rs)) (fofZ (ar_ozp s0))).
Proof. exact (aroon_trend_signal s0 cs k). Qed.
(** ChandeKrollStop #2: definitional CrossAbove of the returned stop lines (long over short), kept when short < long, signed by
    the joint move of both stops since the previous result *)
Theorem C06_chande_kroll_stop_cross (s0 : cks_st (N := NumR)) (p0 : R * R) cs k : ck_ca s0 = cross_new p0 ->
  nth 1 (sigs (snd (cks_next (steps cks_next s0 cs) k))) ANone =
  let r := snd (cks_next (steps cks_next s0 cs) k) in
  a_from_i8 (a_to_i8 (cross_above_def (pair_hist cks_next s0 cs k p0 cks_pair)) * b2z (flt (vals r 2) (vals r 0))
             * signi (fadd (fsub (vals r 2) (snd (cks_prev s0 cs))) (fsub (vals r 0) (fst (cks_prev s0 cs))))).
Proof. intros H0. exact (cks_signal2_correct s0 p0 H0 cs k). Qed.
(** AwesomeOscillator #1 (twin peaks): definitional pivots of the oscillator series, counted while the oscillator stays on one
    side of zero; the signal fires on a pivot exactly when the count has reached conseq_peaks ([ao_counts]/[ao_rule]) *)
Theorem C06_awesome_oscillator_twin_peaks (cfg : ao_cfg) (c0 : candle (N := NumR)) s0 cs c :
  ao_validate cfg = true -> oc_left cfg + oc_right cfg <= pmax - 2 -> ma_len_ok (oc_ma1 cfg) -> ma_len_ok (oc_ma2 cfg) ->
  ao_init cfg c0 = Ok s0 ->
  nth 0 (sigs (snd (ao_next (steps ao_next s0 (c0 :: cs)) c))) ANone = a_from_i8 (fst (fst (ao_counts cfg c0 (rev ((c0 :: cs) ++ [c]))))).
Proof. intros Hv Hlr L1 L2 Hi. exact (ao_twin_peaks_signal cfg c0 Hv Hlr L1 L2 s0 Hi cs c). Qed.
End C06.

(** signals that are a function of the values returned at the same step: the documented rule holds in EVERY state
    (hence after every stream), on every carrier including binary64 *)
Section C06b.
Context {pw : PW} {N : Num}.
Theorem C06_donchian (s : donch_st) (k : candle) :
  let r := snd (donch_next s k) in
  sigs r = [a_from_i8 (b2z (fge (c_high k) (vals r 2)) - b2z (fle (c_low k) (vals r 0)))].
Proof. exact (donchian_signal s k). Qed.
Theorem C06_price_channel (s : pch_st) (k : candle) :
  let r := snd (pch_next s k) in
  sigs r = [a_from_i8 (b2z (fge (c_high k) (vals r 0)) - b2z (fle (c_low k) (vals r 1)))].
Proof. exact (price_channel_signal s k). Qed.
Theorem C06_envelopes (s : env_st) (k : candle) :
  let r := snd (env_next s k) in
  sigs r = [a_from_i8 (b2z (flt (vals r 2) (vals r 1)) - b2z (fgt (vals r 2) (vals r 0)))].
Proof. exact (envelopes_signal s k). Qed.
Theorem C06_momentum_index (s : momi_st) (k : candle) :
  let r := snd (momi_next s k) in
  sigs r = [a_from_i8 (b2z (fgt (vals r 0) f0 && fgt (vals r 1) f0) - b2z (flt (vals r 0) f0 && flt (vals r 1) f0))].
Proof. exact (momentum_index_signal s k). Qed.
Theorem C06_bollinger (s : boll_st) (k : candle) :
  let r := snd (boll_next s k) in
  let src := c_source k (bc_source (bo_cfg s)) in let range := fsub (vals r 0) (vals r 2) in
  let rel := if feq range f0 then flit 1 2 else fdiv (fsub src (vals r 2)) range in
  sigs r = [a_from_f (ffma rel f2 (fneg f1))].
Proof. exact (bollinger_signal s k). Qed.
Theorem C06_parabolic_sar (s : psar_st) (k : candle) :
  let s' := fst (psar_next s k) in
  sigs (snd (psar_next s k)) = [a_from_i8 (b2z (negb (ps_prev_trend s =? ps_trend s')) * ps_trend s')] /\
  ps_prev_trend s' = ps_trend s' /\ vals (snd (psar_next s k)) 1 = fofZ (ps_trend s').
Proof. exact (psar_signal s k). Qed.
Theorem C06_average_directional_index (s : adx_st) (k : candle) :
  let r := snd (adx_next s k) in
  sigs r = [a_from_i8 (b2z (fgt (vals r 0) (ac_zone (ax_cfg s))) * (b2z (fgt (vals r 1) (vals r 2)) - b2z (flt (vals r 1) (vals r 2))));
            a_from_f (fsub (vals r 1) (vals r 2))].
Proof. exact (adx_signals s k). Qed.
Theorem C06_chande_kroll_stop_position (s : cks_st) (k : candle) :
  let r := snd (cks_next s k) in
  let mid := fmul (fadd (vals r 2) (vals r 0)) (flit 1 2) in let size := fsub mid (vals r 0) in
  nth 0 (sigs r) ANone = a_from_f (if feq size f0 then f0 else fdiv (fsub (vals r 1) mid) size).
Proof. exact (chande_kroll_signal1 s k). Qed.
End C06b.

(** Known finding KF-C06-keltner-polarity: the documentation of KeltnerChannel says "when the source goes
    above the upper bound, returns full buy"; on the faithful model (binary64, kernel computation)
    KeltnerChannel(sma-2, sigma 0.5) built from a flat candle at 10 and fed a close of 9 then a close of 30
    (source 30 > upper bound 25, previous source 9 < upper bound 9.75) returns a full SELL. *)
From Yata Require Import Base.NumF64 Core.Strings Indicators.Set3.
From Coq Require Import Floats.
Example C06_keltner_polarity_refuted :
  let c0 := mkCandle (N := NumF64) 10%float 10%float 10%float 10%float 1%float in
  let k1 := mkCandle (N := NumF64) 10%float 10%float 9%float 9%float 1%float in
  let k2 := mkCandle (N := NumF64) 9%float 30%float 9%float 30%float 1%float in
  exists s0, kelt_init (pw := PW8) (N := NumF64) (MAcfg KSMA 2) (0x1p-1)%float SClose c0 = Ok s0 /\
    let s1 := fst (kelt_next (pw := PW8) s0 k1) in
    let r1 := snd (kelt_next (pw := PW8) s0 k1) in
    let r2 := snd (kelt_next (pw := PW8) s1 k2) in
    (* step 1: source 9 below the upper bound; step 2: source 30 above the upper bound 25 *)
    match fst r1, fst r2 with
    | [src1; up1; _], [src2; up2; _] => PrimFloat.ltb src1 up1 = true /\ PrimFloat.ltb up2 src2 = true
    | _, _ => False
    end /\ snd r2 = [a_sell_all].
Proof. eexists. split; [reflexivity|]. vm_compute. repeat split. Qed.

(** Known finding KF-C06-tsx-signals: TrendStrengthIndex documents "when the main value crosses the upper zone downwards,
    gives full NEGATIVE #1 signal"; on the faithful model (binary64, kernel computation) TrendStrengthIndex(period 3,
    zone 0.5, reverse_offset 1) built from a flat candle at 2 and fed closes 6 then 4 has value > 0.5 after the first and
    < 0.5 after the second candle - a downward crossing of the upper zone - and returns a full BUY.  (Signal #2 has the same
    inverted polarity and, in addition, tests the zone against a PRICE of the window instead of the main value.) *)
From Yata Require Import Base.NumF64 Indicators.Set5.
From Coq Require Import Floats.
Theorem C06_trend_strength_polarity_refuted :
  let c0 := mkCandle (N := NumF64) 2%float 2%float 2%float 2%float 1%float in
  let k1 := mkCandle (N := NumF64) 6%float 6%float 6%float 6%float 1%float in
  let k2 := mkCandle (N := NumF64) 4%float 4%float 4%float 4%float 1%float in
  exists s0, tsx_init (pw := PW8) (N := NumF64) 3 (0x1p-1)%float 1 SClose c0 = Ok s0 /\
    let s1 := fst (tsx_next (pw := PW8) s0 k1) in
    let r1 := snd (tsx_next (pw := PW8) s0 k1) in
    let r2 := snd (tsx_next (pw := PW8) s1 k2) in
    match fst r1, fst r2, snd r2 with
    | [v1], [v2], sg1 :: _ => PrimFloat.ltb (0x1p-1)%float v1 = true /\ PrimFloat.ltb v2 (0x1p-1)%float = true /\ sg1 = a_buy_all
    | _, _, _ => False
    end.
Proof. eexists. split; [reflexivity|]. vm_compute. repeat split. Qed.
