(** C20 — PeriodType width and ValueType precision are only capacity and precision choices. *)
From Yata Require Import Base.Prelude Base.Num Base.NumR Core.Window Core.WindowSpec Spec.Hist Spec.MethodDefs
  Methods.Basic Proofs.MethodsCommon Proofs.Windowed Proofs.Windowed2 Proofs.Windowed6 Proofs.Width.
Open Scope Z_scope.

(** for parameters that fit the default type the width does not matter (model level) *)
Theorem C20_window_new_width {A} (p q : PW) n (v : A) : n <= @pmax p - 1 -> n <= @pmax q - 1 ->
  w_new (pw := p) n v = w_new (pw := q) n v.
Proof. exact (w_new_width p q n v). Qed.
Theorem C20_window_push_width {A} (p q : PW) (w : window A) x : widx w + 1 <= @pmax p -> widx w + 1 <= @pmax q ->
  w_push (pw := p) w x = w_push (pw := q) w x.
Proof. exact (w_push_width p q w x). Qed.
Theorem C20_sma_width_irrelevant (q : PW) n (v : @F NumR) xs : 255 <= @pmax q -> 1 <= n <= 254 ->
  exists s, sma_new (pw := PW8) n v = Ok s /\ sma_new (pw := q) n v = Ok s /\
    run (sma_next (pw := PW8)) s xs = run (sma_next (pw := q)) s xs.
Proof. exact (sma_width_irrelevant q n v xs). Qed.

(** the same definitional equalities beyond 255: the correctness theorems instantiated at the wide types
    (every theorem of C01..C04, C08, C10, C14 is stated for an arbitrary [pw]) *)
Theorem C20_sma_u16 n (v : @F NumR) xs x : 1 <= n <= 65534 ->
  exists s0, sma_new (pw := PW16) n v = Ok s0 /\
    snd (sma_next (pw := PW16) (steps (sma_next (pw := PW16)) s0 xs) x) = sma_def (Z.to_nat n) (hget v (rev (xs ++ [x]))).
Proof. exact (sma_correct (pw := PW16) n v xs x). Qed.
Theorem C20_wma_u32 n (v : @F NumR) xs x : 1 <= n <= 4294967294 ->
  exists s0, wma_new (pw := PW32) n v = Ok s0 /\
    snd (wma_next (pw := PW32) (steps (wma_next (pw := PW32)) s0 xs) x) = wma_def (Z.to_nat n) (hget v (rev (xs ++ [x]))).
Proof. exact (wma_correct (pw := PW32) n v xs x). Qed.
Theorem C20_lin_reg_u64 n (v : @F NumR) xs x : 2 <= n <= 18446744073709551614 ->
  exists s0, linreg_new (pw := PW64) n v = Ok s0 /\
    snd (linreg_next (pw := PW64) (steps (linreg_next (pw := PW64)) s0 xs) x) = linreg_def (Z.to_nat n) (hget v (rev (xs ++ [x]))).
Proof. exact (linreg_correct (pw := PW64) n v xs x). Qed.

(** all 15 kinds of the MA constructor, any width: the running instance returns the kind's definition for every accepted length
    of that width ... *)
From Yata Require Import Spec.IndicatorDefs Core.Candle Core.Action Core.Strings Indicators.Common Methods.Select Proofs.MAProofs Proofs.IndicatorProofs11 Proofs.Selection2.
Theorem C20_ma_any_width (p : PW) (c : ma_cfg) (v : @F NumR) xs x : ma_len_ok (pw := p) c ->
  exists s0, ma_init (pw := p) c v = Ok s0 /\
    snd (ma_next (pw := p) (steps (ma_next (pw := p)) s0 xs) x) = ma_def (pw := p) c v (rev (xs ++ [x])).
Proof. intros Hl. exact (ma_correct (pw := p) c v xs x (ma_proved_all c) Hl). Qed.
(** ... hence two widths that both accept the length return the same values for ever (every kind but HMA, whose definition
    mentions the width through the clamp of its sqrt(n) sub-length) *)
Theorem C20_ma_width_irrelevant (p q : PW) (c : ma_cfg) (v : @F NumR) xs x : (forall n, c <> MAcfg KHMA n) ->
  ma_len_ok (pw := p) c -> ma_len_ok (pw := q) c ->
  exists sp sq, ma_init (pw := p) c v = Ok sp /\ ma_init (pw := q) c v = Ok sq /\
    snd (ma_next (pw := p) (steps (ma_next (pw := p)) sp xs) x) = snd (ma_next (pw := q) (steps (ma_next (pw := q)) sq xs) x).
Proof.
  intros Hk Lp Lq. destruct (C20_ma_any_width p c v xs x Lp) as (sp & Ep & Hp). destruct (C20_ma_any_width q c v xs x Lq) as (sq & Eq & Hq).
  exists sp, sq. split; [exact Ep|]. split; [exact Eq|]. rewrite Hp, Hq. destruct c as (k, n).
  destruct k; try reflexivity. exfalso. exact (Hk n eq_refl).
Qed.
(** the reversal detectors are definitional at every width (their position counters are re-based, never saturated) *)
Theorem C20_reversal_any_width (p : PW) lft right (v : @F NumR) xs x : 1 <= lft -> 1 <= right -> lft + right <= @pmax p - 2 ->
  exists s0, reversal_new (pw := p) lft right v = Ok s0 /\
    snd (reversal_next (pw := p) (steps (reversal_next (pw := p)) s0 (v :: xs)) x) =
    let h := hget v (rev ((v :: xs) ++ [x])) in let L := Z.to_nat (lft + right + 1) in let r := Z.to_nat right in
    a_sub (if Nat.eqb (argbest flt h L) r then a_buy_all else ANone) (if Nat.eqb (argbest fgt h L) r then a_buy_all else ANone).
Proof. exact (reversal_signal_correct (pw := p) lft right v xs x). Qed.
