(** C20 — PeriodType width and ValueType precision are only capacity and precision choices. *)
From Yata Require Import Base.Prelude Base.Num Base.NumR Core.Window Core.WindowSpec Spec.Hist Spec.MethodDefs
  Methods.Basic Proofs.MethodsCommon Proofs.Windowed Proofs.Windowed2 Proofs.Windowed6 Proofs.Width.
Open Scope Z_scope.

(** for parameters that fit the default type the width does not matter (model level) *)
Theorem C20_window_new_width {A} (p q : PW) n (v : A) : n <= @pmax p - 1 -> n <= @pmax q - 1 ->
  w_new (pw := p) n v = w_new (pw := q) n v.
Proof. exact (w_new_width p q n v). Qed.
Theorem C20_window_push_width {A} (p q : PW) (w : window A) x : widx w + 1 <= @pmax p -> widx w + 1 <= @pmax q ->
  w_push (pw := p) w x = w_push (pw := q) w x.
Proof. exact (w_push_width p q w x). Qed.
Theorem C20_sma_width_irrelevant (q : PW) n (v : @F NumR) xs : 255 <= @pmax q -> 1 <= n <= 254 ->
  exists s, sma_new (pw := PW8) n v = Ok s /\ sma_new (pw := q) n v = Ok s /\
    run (sma_next (pw := PW8)) s xs = run (sma_next (pw := q)) s xs.
Proof. exact (sma_width_irrelevant q n v xs). Qed.

(** the same definitional equalities beyond 255: the correctness theorems instantiated at the wide types
    (every theorem of C01..C04, C08, C10, C14 is stated for an arbitrary [pw]) *)
Theorem C20_sma_u16 n (v : @F NumR) xs x : 1 <= n <= 65534 ->
  exists s0, sma_new (pw := PW16) n v = Ok s0 /\
    snd (sma_next (pw := PW16) (steps (sma_next (pw := PW16)) s0 xs) x) = sma_def (Z.to_nat n) (hget v (rev (xs ++ [x]))).
Proof. exact (sma_correct (pw := PW16) n v xs x). Qed.
Theorem C20_wma_u32 n (v : @F NumR) xs x : 1 <= n <= 4294967294 ->
  exists s0, wma_new (pw := PW32) n v = Ok s0 /\
    snd (wma_next (pw := PW32) (steps (wma_next (pw := PW32)) s0 xs) x) = wma_def (Z.to_nat n) (hget v (rev (xs ++ [x]))).
Proof. exact (wma_correct (pw := PW32) n v xs x). Qed.
Theorem C20_lin_reg_u64 n (v : @F NumR) xs x : 2 <= n <= 18446744073709551614 ->
  exists s0, linreg_new (pw := PW64) n v = Ok s0 /\
    snd (linreg_next (pw := PW64) (steps (linreg_next (pw := PW64)) s0 xs) x) = linreg_def (Z.to_nat n) (hget v (rev (xs ++ [x]))).
Proof. exact (linreg_correct (pw := PW64) n v xs x). Qed.
