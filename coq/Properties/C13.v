(** C13 — Serialized snapshots restore behaviourally identical instances. *)
From Yata Require Import Base.Prelude Base.Num Core.Window Core.WindowSpec Methods.Basic Methods.Select
  Serde.Sval Spec.ConfigTable Generated.Configs.
Open Scope Z_scope.

Section C13.
Context {pw : PW}.
Hypothesis pmax_ge : 2 <= pmax.
Context {A : Type}.

(** the hand-written Window codec: every well-formed window (every rotation phase, the empty one) round-trips *)
Theorem C13_window_roundtrip (w : window A) : wf w -> w_deserialize (w_serialize w) = DOk w.
Proof. exact (deser_ser pmax_ge w). Qed.
(** malformed data (index outside the buffer, oversized buffer) is an error, never a panic, never an ill-formed window *)
Theorem C13_window_deserialize_total (b : list A) idx :
  match w_deserialize (b, idx) with
  | DOk w => wf w /\ buf w = b /\ widx w = idx /\ parts_ok b idx
  | DErr => ~ parts_ok b idx
  | DPanic _ => False
  end.
Proof. exact (deser_total pmax_ge b idx). Qed.
(** through the self-describing value form, for any element codec *)
Theorem C13_window_value_roundtrip (ca : codec A) (w : window A) : wf w -> w_dec ca (w_enc ca w) = Some w.
Proof. exact (window_codec_roundtrip pmax_ge ca w). Qed.
End C13.

(** derived codecs: a struct of round-tripping fields round-trips (n-ary by nesting) *)
Theorem C13_struct_roundtrip {A B} n1 n2 (ca : codec A) (cb : codec B) (p : A * B) :
  dec (pair_codec n1 n2 ca cb) (enc (pair_codec n1 n2 ca cb) p) = Some p.
Proof. exact (roundtrip (pair_codec n1 n2 ca cb) p). Qed.
Theorem C13_seq_roundtrip {A} (ca : codec A) (l : list A) : dec (list_codec ca) (enc (list_codec ca) l) = Some l.
Proof. exact (roundtrip (list_codec ca) l). Qed.

(** every indicator configuration and instance derives both traits, without skipped fields
    (table re-generated from the source on every run) *)
Theorem C13_derives_complete : forall t, In t indicator_tables -> it_serde t = true.
Proof. apply forallb_forall. vm_compute. reflexivity. Qed.

Theorem C13_smm_restore {pw : PW} {N : Num} (s : smm) :
  w_is_empty (smm_window s) = false -> existsb fis_nan (buf (smm_window s)) = false ->
  smm_half s = wsize (smm_window s) / 2 ->
  smm_half_m1 s = sat_sub (smm_half s) (if wsize (smm_window s) mod 2 =? 0 then 1 else 0) ->
  smm_slice s = tsort (buf (smm_window s)) ->
  smm_restore (smm_window s) = Some s.
Proof. exact (smm_restore_roundtrip s). Qed.

(** end to end for concrete method states: the snapshot of EVERY state reachable from an accepted constructor, after any stream,
    decodes to that very state (derived struct codecs composed with the validating Window codec; any round-tripping float
    encoding, any carrier and width) - so the restored instance continues bit-for-bit like the original *)
From Yata Require Import Serde.Snapshots Spec.Hist.
Open Scope Z_scope.
Theorem C13_sma_snapshot_any_state {pw : PW} {N : Num} (pmax_ge : 2 <= pmax) (cf : codec F) n (v : F) xs : 1 <= n <= pmax - 1 ->
  exists s0, sma_new n v = Ok s0 /\
    let s := steps sma_next s0 xs in pdec (sma_pcodec pmax_ge cf) (penc (sma_pcodec pmax_ge cf) s) = Some s.
Proof. exact (sma_snapshot_roundtrip pmax_ge cf n v xs). Qed.
Theorem C13_wma_snapshot_any_state {pw : PW} {N : Num} (pmax_ge : 2 <= pmax) (cf : codec F) n (v : F) xs : 1 <= n <= pmax - 1 ->
  exists s0, wma_new n v = Ok s0 /\
    let s := steps wma_next s0 xs in pdec (wma_pcodec pmax_ge cf) (penc (wma_pcodec pmax_ge cf) s) = Some s.
Proof. exact (wma_snapshot_roundtrip pmax_ge cf n v xs). Qed.
Theorem C13_trima_snapshot_any_state {pw : PW} {N : Num} (pmax_ge : 2 <= pmax) (cf : codec F) n (v : F) xs : 1 <= n <= pmax - 1 ->
  exists s0, trima_new n v = Ok s0 /\
    let s := steps trima_next s0 xs in pdec (trima_pcodec pmax_ge cf) (penc (trima_pcodec pmax_ge cf) s) = Some s.
Proof. exact (trima_snapshot_roundtrip pmax_ge cf n v xs). Qed.
