(** C17 — Timeseries converters keep the information they claim to keep. *)
From Yata Require Import Base.Prelude Base.Num Base.NumR Core.Window Core.Candle Spec.Hist Spec.MethodDefs
  Methods.Basic Methods.Convert Proofs.ConvertProofs Proofs.Recursive Proofs.ConvertProofs2.
From Coq Require Import Reals.
Open Scope Z_scope.

(** CollapseTimeframe (any arithmetic): exactly one candle when the number of pending inputs reaches
    the period, the aggregate (first open, max high, min low, last close, summed volume: [c_add]) of
    exactly those inputs; nothing otherwise; then it starts over *)
Theorem C17_collapse {N : Num} p cs : (0 < p)%nat ->
  exists s0, collapse_new (Z.of_nat p) = Ok s0 /\ run collapse_next s0 cs = collapse_spec p cs.
Proof. exact (collapse_correct p cs). Qed.

Section C17R.
Local Notation R := (@F NumR).
Open Scope R_scope.
Theorem C17_heikin_ashi (c0 : candle (N := NumR)) cs c :
  snd (ha_next (steps ha_next (ha_new c0) cs) c) = ha_def c0 (rev cs) c.
Proof. exact (ha_correct c0 cs c). Qed.
(** ... and it outputs a valid candle whenever the construction candle and every input are valid, after any stream *)
Theorem C17_heikin_ashi_valid (c0 : candle (N := NumR)) cs c : c_validate c0 = true -> Forall (fun k => c_validate k = true) (cs ++ [c]) ->
  c_validate (snd (ha_next (steps ha_next (ha_new c0) cs) c)) = true.
Proof. exact (ha_model_valid c0 cs c). Qed.
Theorem C17_renko_emits_iff (s : renko (N := NumR)) c :
  (0 < ro_len (snd (renko_next s c)))%Z <->
  (rk_next_upper s <= c_source c (rk_src s) \/ c_source c (rk_src s) <= rk_next_lower s).
Proof. exact (renko_emits_iff s c). Qed.
Theorem C17_renko_bricks_contiguous (o : renko_out (N := NumR)) i : brick_close o i = brick_open o (i + 1).
Proof. exact (renko_bricks_contiguous o i). Qed.
Theorem C17_renko_brick_relative_size (o : renko_out (N := NumR)) i : ro_base o <> 0 ->
  (brick_close o i - brick_open o i) / ro_base o = ro_size o.
Proof. exact (renko_brick_relative_size o i). Qed.
Theorem C17_renko_volume_conserved (s : renko (N := NumR)) c :
  let o := snd (renko_next s c) in
  (0 < ro_len o)%Z -> IZR (ro_len o) * ro_vol o = rk_volume s + c_volume c /\ rk_volume (fst (renko_next s c)) = 0.
Proof. exact (renko_volume_conserved s c). Qed.
Theorem C17_renko_volume_accumulates (s : renko (N := NumR)) c :
  ro_len (snd (renko_next s c)) = 0%Z -> rk_volume (fst (renko_next s c)) = rk_volume s + c_volume c.
Proof. exact (renko_volume_accumulates s c). Qed.
Theorem C17_renko_contiguous_across_steps (s : renko (N := NumR)) c :
  let o := snd (renko_next s c) in let s' := fst (renko_next s c) in
  0 < rk_size s -> (0 < ro_len o)%Z ->
  (0 < ro_size o -> rk_last_upper s' = brick_close o (ro_len o - 1) /\ rk_last_lower s' = brick_open o (ro_len o - 1)) /\
  (ro_size o < 0 -> rk_last_lower s' = brick_close o (ro_len o - 1) /\ rk_last_upper s' = brick_open o (ro_len o - 1)).
Proof. exact (renko_contiguous_across_steps s c). Qed.
End C17R.
