(** C04 — Extremum, arg-extremum and median methods are exact selections. *)
From Yata Require Import Base.Prelude Base.Num Base.NumR Core.Window Core.Candle
  Spec.Hist Methods.Basic Methods.Select Proofs.MethodsCommon Proofs.Selection.
From Coq Require Import Reals.
Open Scope Z_scope.

Section C04.
Context {pw : PW}.
Local Notation R := (@F NumR).

Theorem C04_highest n (v : R) xs x : 1 <= n <= pmax - 1 ->
  exists s0, hl_new n v = Ok s0 /\
    snd (highest_step (steps highest_step s0 xs) x) = highest_def (Z.to_nat n) (hget v (rev (xs ++ [x]))).
Proof. exact (highest_correct n v xs x). Qed.

Theorem C04_highest_is_maximum n (h : nat -> R) : (0 < n)%nat ->
  (forall i, (i < n)%nat -> (h i <= highest_def n h)%R) /\ exists i, (i < n)%nat /\ h i = highest_def n h.
Proof. exact (highest_def_is_max n h). Qed.
End C04.
