(** C04 — Extremum, arg-extremum and median methods are exact selections. *)
From Yata Require Import Base.Prelude Base.Num Base.NumR Core.Window Core.Candle
  Spec.Hist Spec.IndicatorDefs Methods.Basic Methods.Select Proofs.MethodsCommon Proofs.Selection Proofs.Selection2 Proofs.Smm.
From Coq Require Import Reals.
Open Scope Z_scope.

Section C04.
Context {pw : PW}.
Local Notation R := (@F NumR).

Theorem C04_highest n (v : R) xs x : 1 <= n <= pmax - 1 ->
  exists s0, hl_new n v = Ok s0 /\
    snd (highest_step (steps highest_step s0 xs) x) = highest_def (Z.to_nat n) (hget v (rev (xs ++ [x]))).
Proof. exact (highest_correct n v xs x). Qed.

Theorem C04_highest_is_maximum n (h : nat -> R) : (0 < n)%nat ->
  (forall i, (i < n)%nat -> (h i <= highest_def n h)%R) /\ exists i, (i < n)%nat /\ h i = highest_def n h.
Proof. exact (highest_def_is_max n h). Qed.

Theorem C04_lowest n (v : R) xs x : 1 <= n <= pmax - 1 ->
  exists s0, hl_new n v = Ok s0 /\
    snd (lowest_step (steps lowest_step s0 xs) x) = lowest_def (Z.to_nat n) (hget v (rev (xs ++ [x]))).
Proof. exact (lowest_correct n v xs x). Qed.
Theorem C04_lowest_is_minimum n (h : nat -> R) : (0 < n)%nat ->
  (forall i, (i < n)%nat -> (lowest_def n h <= h i)%R) /\ exists i, (i < n)%nat /\ h i = lowest_def n h.
Proof. exact (lowest_def_is_min n h). Qed.
Theorem C04_highest_lowest_delta n (v : R) xs x : 1 <= n <= pmax - 1 ->
  exists s0, hld_new n v = Ok s0 /\
    snd (hld_next (steps hld_next s0 xs) x) = hld_def (Z.to_nat n) (hget v (rev (xs ++ [x]))).
Proof. exact (hld_correct n v xs x). Qed.
(** indices: the number of steps since the NEWEST maximal / minimal element of the last n inputs *)
Theorem C04_highest_index n (v : R) xs x : 1 <= n <= pmax - 1 ->
  exists s0, hli_new n v = Ok s0 /\
    snd (highest_index_step (steps highest_index_step s0 xs) x) = highest_age (Z.to_nat n) (hget v (rev (xs ++ [x]))).
Proof. exact (highest_index_correct n v xs x). Qed.
Theorem C04_lowest_index n (v : R) xs x : 1 <= n <= pmax - 1 ->
  exists s0, hli_new n v = Ok s0 /\
    snd (lowest_index_step (steps lowest_index_step s0 xs) x) = lowest_age (Z.to_nat n) (hget v (rev (xs ++ [x]))).
Proof. exact (lowest_index_correct n v xs x). Qed.
Theorem C04_index_is_newest_extreme (h : nat -> R) n j : (1 <= n)%nat ->
  (argbest fgt h n = j <-> (j < n)%nat /\ (forall i, (i < j)%nat -> (h i < h j)%R) /\ (forall i, (i < n)%nat -> (h i <= h j)%R)).
Proof. exact (upper_pivot_meaning h n j). Qed.
Theorem C04_low_index_is_newest_extreme (h : nat -> R) n j : (1 <= n)%nat ->
  (argbest flt h n = j <-> (j < n)%nat /\ (forall i, (i < j)%nat -> (h j < h i)%R) /\ (forall i, (i < n)%nat -> (h j <= h i)%R)).
Proof. exact (lower_pivot_meaning h n j). Qed.
(** SMM: at every step of every stream [next] succeeds and returns the median of the last n inputs (the average of the
    two middle elements of their sorted arrangement for even n); the sorted buffer maintained by the two binary searches
    is THE sorted arrangement of the window (uniqueness of sorted permutations) *)
Theorem C04_smm n (v : R) xs x : 1 <= n <= pmax - 1 ->
  exists s0, smm_new n v = Ok s0 /\
    exists r, smm_next (steps smm_step_t s0 xs) x = Ok r /\ snd r = median_def (Z.to_nat n) (hget v (rev (xs ++ [x]))).
Proof. exact (smm_correct n v xs x). Qed.
(** MedianAbsDev: the mean absolute deviation of the last n inputs from their median (n >= 2); never panics *)
Theorem C04_median_abs_dev n (v : R) xs x : 2 <= n <= pmax - 1 ->
  exists s0, medad_new n v = Ok s0 /\
    exists r, medad_next (mkMedAD (steps smm_step_t (md_smm s0) xs) (md_divider s0)) x = Ok r /\
      snd r = medad_def (Z.to_nat n) (hget v (rev (xs ++ [x]))).
Proof. exact (medad_correct n v xs x). Qed.
End C04.

(** binary64: the median of finite inputs above half of the range is not lost to an overflow of the intermediate sum
    (fix bdc3c4f: before it, SMM(1) fed 1.7e308 returned infinity) - kernel computation on the faithful model *)
From Yata Require Import Base.NumF64.
From Coq Require Import Floats.
Example C04_smm_large_values_f64 :
  match smm_new (pw := PW8) (N := NumF64) 1 1%float with
  | Ok s => match smm_next (pw := PW8) s 0x1.e42d130773b76p+1023%float with
            | Ok (_, y) => PrimFloat.eqb y 0x1.e42d130773b76p+1023%float = true
            | _ => False end
  | _ => False end /\
  match smm_new (pw := PW8) (N := NumF64) 2 0x1.e42d130773b76p+1023%float with
  | Ok s => match smm_next (pw := PW8) s 0x1.c7b1f3cac7433p+1023%float with
            | Ok (_, y) => PrimFloat.is_finite y = true /\ PrimFloat.ltb 0x1.c7b1f3cac7433p+1023%float y = true /\ PrimFloat.ltb y 0x1.e42d130773b76p+1023%float = true
            | _ => False end
  | _ => False end.
Proof. vm_compute. repeat split; reflexivity. Qed.
