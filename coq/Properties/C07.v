(** C07 — Accuracy does not decay with the length of the stream.
    Exact parts: (1) every windowed method with a C02 theorem forgets everything older than its window: an
    instance with ANY past, of any length, fed the same recent inputs as a fresh instance gives the same output;
    (2) recursive averages forget their past geometrically; (3) the position counters of the reversal detectors
    stay below the window length for streams of every length (they never reach the capacity of PeriodType);
    (4) the C02 / C03 / C04 / C14 theorems themselves quantify over streams of every length. *)
From Yata Require Import Base.Prelude Base.Num Base.NumR Core.Window Core.Candle Core.Action
  Spec.Hist Spec.MethodDefs Methods.Basic Methods.Select Proofs.MethodsCommon Proofs.LongRun Properties.C02.
From Coq Require Import Reals.
Open Scope Z_scope.

Section C07.
Context {pw : PW}.
Local Notation R := (@F NumR).

(** two instances built with any construction values [v], [v'], after any pasts [xs], [ys] (of any lengths),
    then fed the same recent inputs [zs] and the current input [x], return the same output as soon as [zs]
    and [x] cover the [k n] elements the definition reads; [ys = []] is the fresh instance primed with the window *)
Definition forgets_past {S I O} (new : Z -> I -> outcome S) (next : S -> I -> S * O) (lo hi : Z) (k : nat -> nat) : Prop :=
  forall n v v' xs ys zs x, lo <= n <= hi -> (k (Z.to_nat n) <= length zs + 1)%nat ->
    exists s0 s0', new n v = Ok s0 /\ new n v' = Ok s0' /\
      snd (next (steps next s0 (xs ++ zs)) x) = snd (next (steps next s0' (ys ++ zs)) x).

Theorem C07_sma : forgets_past sma_new sma_next 1 (pmax - 1) (fun n => n).
Proof. exact (long_past_irrelevant _ _ _ _ _ _ C02_sma sma_local). Qed.
Theorem C07_wma : forgets_past wma_new wma_next 1 (pmax - 1) (fun n => n).
Proof. exact (long_past_irrelevant _ _ _ _ _ _ C02_wma wma_local). Qed.
Theorem C07_swma : forgets_past swma_new swma_next 1 (pmax - 1) (fun n => n).
Proof. exact (long_past_irrelevant _ _ _ _ _ _ C02_swma swma_local). Qed.
Theorem C07_lin_reg : forgets_past linreg_new linreg_next 2 (pmax - 1) (fun n => n).
Proof. exact (long_past_irrelevant _ _ _ _ _ _ C02_lin_reg linreg_local). Qed.
Theorem C07_st_dev : forgets_past stdev_new stdev_next 2 (pmax - 1) (fun n => n).
Proof. exact (long_past_irrelevant _ _ _ _ _ _ C02_st_dev stdev_local). Qed.
Theorem C07_mean_abs_dev : forgets_past mad_new mad_next 1 (pmax - 1) (fun n => n).
Proof. exact (long_past_irrelevant _ _ _ _ _ _ C02_mean_abs_dev mad_local). Qed.
Theorem C07_cci : forgets_past cci_new cci_next 1 (pmax - 1) (fun n => (n + 1)%nat).
Proof. exact (long_past_irrelevant _ _ _ _ _ _ C02_cci cci_local). Qed.
Theorem C07_trima : forgets_past trima_new trima_next 1 (pmax - 1) (fun n => (n + n)%nat).
Proof. exact (long_past_irrelevant _ _ _ _ _ _ C02_trima trima_local). Qed.
Theorem C07_linear_volatility : forgets_past linvol_new linvol_next 1 (pmax - 1) (fun n => (n + 1)%nat).
Proof. exact (long_past_irrelevant _ _ _ _ _ _ C02_linear_volatility linvol_local). Qed.
Theorem C07_integral : forgets_past integral_new integral_next 1 (pmax - 1) (fun n => n).
Proof. exact (long_past_irrelevant _ _ _ _ _ _ C02_integral integral_local). Qed.
Theorem C07_momentum : forgets_past momentum_new momentum_next 1 (pmax - 1) (fun n => (n + 1)%nat).
Proof. exact (long_past_irrelevant _ _ _ _ _ _ C02_momentum momentum_local). Qed.
Theorem C07_derivative : forgets_past derivative_new derivative_next 1 (pmax - 1) (fun n => (n + 1)%nat).
Proof. exact (long_past_irrelevant _ _ _ _ _ _ C02_derivative derivative_local). Qed.
Theorem C07_rate_of_change : forgets_past roc_new roc_next 1 (pmax - 1) (fun n => (n + 1)%nat).
Proof. exact (long_past_irrelevant _ _ _ _ _ _ C02_rate_of_change roc_local). Qed.
Theorem C07_past : forgets_past (past_new (A := R)) past_next 1 (pmax - 1) (fun n => (n + 1)%nat).
Proof. exact (long_past_irrelevant _ _ _ _ _ _ C02_past past_local). Qed.
Theorem C07_vwma : forgets_past vwma_new vwma_next 1 (pmax - 1) (fun n => n).
Proof. exact (long_past_irrelevant _ _ _ _ _ _ C02_vwma vwma_local). Qed.
Theorem C07_adi_windowed : forgets_past adi_new adi_next 1 (pmax - 1) (fun n => n).
Proof. exact (long_past_irrelevant _ _ _ _ _ _ C02_adi_windowed adi_local). Qed.

(** recursive averages: the influence of the state before the last k inputs is (1-a)^k times the initial
    difference, hence never larger than it and vanishing with k *)
Theorem C07_ema_forgets (a x0 y0 : R) l :
  (ema_rec a x0 l - ema_rec a y0 l = (1 - a) ^ (length l) * (x0 - y0))%R.
Proof. exact (ema_forgets a x0 y0 l). Qed.
Theorem C07_ema_long_past_vanishes (a x0 y0 : R) l : (0 <= a <= 1)%R ->
  (Rabs (ema_rec a x0 l - ema_rec a y0 l) <= Rabs (x0 - y0))%R.
Proof. exact (ema_long_past_vanishes a x0 y0 l). Qed.

(** reversal detectors (any carrier, any comparison): after ANY number of steps the stored positions satisfy
    0 <= extreme position <= stream position <= left + right + 1 < PeriodType::MAX *)
Theorem C07_reversal_counters_bounded {N : Num} beats lft right (v : F) xs :
  1 <= lft -> 1 <= right -> lft + right <= pmax - 2 ->
  exists s0, rev_new lft right v = Ok s0 /\
    let s := steps (rev_next beats) s0 xs in
    0 <= rv_mindex s <= rv_index s /\ rv_index s <= lft + right + 1 /\ lft + right + 1 < pmax.
Proof. exact (rev_counters_bounded beats lft right v xs). Qed.
End C07.

(** Known finding KF-C07-wma-drift, mechanism shown on the faithful binary64 model (kernel computation):
    WMA keeps [total] (minus the window sum) and adds it to [numerator] on every step; a rounding error left in
    [total] by earlier, larger inputs is never removed and is ADDED AGAIN at every later step.  WMA(2) built at 1,
    fed 1e17, 12345678901234568 twice and then the constant 1: the exact output is 1 from the sixth input on; the
    model (and the implementation) return ..., 170, 176, 182: growing by 6 per step without bound. *)
From Yata Require Import Base.NumF64 Exec.MethodRun.
From Coq Require Import Floats.
Theorem C07_wma_drift_refuted :
  exists s0, wma_new (pw := PW8) (N := NumF64) 2 1%float = Ok s0 /\
    let outs := snd (fold_left (fun st x => let '(s, y) := wma_next (pw := PW8) (N := NumF64) (fst st) x in (s, y :: snd st))
                       ([100000000000000000; 12345678901234568; 12345678901234568]%float ++ repeat 1%float 30) (s0, [])) in
    match outs with
    | y2 :: y1 :: _ => PrimFloat.ltb 100 y2 = true /\ PrimFloat.ltb (y1 + 5) y2 = true
    | _ => False
    end.
Proof. eexists. split; [reflexivity|]. vm_compute. split; reflexivity. Qed.

(** The same defect in LinReg (its [s_xy] adds the running [s_y] on every step) and in SWMA of odd length: on the same inputs the
    outputs grow without bound on constant input (found by the thorough tier's 10^7-step soak) *)
Theorem C07_linreg_drift_refuted :
  exists s0, linreg_new (pw := PW8) (N := NumF64) 2 1%float = Ok s0 /\
    let outs := snd (fold_left (fun st x => let '(s, y) := linreg_next (pw := PW8) (N := NumF64) (fst st) x in (s, y :: snd st))
                       ([100000000000000000; 12345678901234568; 12345678901234568]%float ++ repeat 1%float 30) (s0, [])) in
    match outs with
    | y2 :: y1 :: _ => PrimFloat.ltb 100 y2 = true /\ PrimFloat.ltb (y1 + 5) y2 = true
    | _ => False
    end.
Proof. eexists. split; [reflexivity|]. vm_compute. split; reflexivity. Qed.
Theorem C07_swma_drift_refuted :
  exists s0, swma_new (pw := PW8) (N := NumF64) 3 1%float = Ok s0 /\
    let outs := snd (fold_left (fun st x => let '(s, y) := swma_next (pw := PW8) (N := NumF64) (fst st) x in (s, y :: snd st))
                       ([100000000000000000; 12345678901234568; 12345678901234568]%float ++ repeat 1%float 60) (s0, [])) in
    match outs with
    | y2 :: y1 :: _ => PrimFloat.ltb 100 y2 = true /\ PrimFloat.ltb (y1 + 2) y2 = true
    | _ => False
    end.
Proof. eexists. split; [reflexivity|]. vm_compute. split; reflexivity. Qed.

(** (5) integer counters kept by indicators: AwesomeOscillator's 8-bit saturating peak counters are unobservable - an instance
    with unbounded counters returns the same results on every stream, of every length, on every carrier *)
From Yata Require Import Core.Strings Indicators.Common Indicators.Set4 Proofs.AoCounters.
Theorem C07_awesome_oscillator_counters {pw : PW} {N : Num} (s0 : ao_st) cs :
  (oc_peaks (ao_cfg_ s0) <= 255)%Z -> (0 <= ao_high s0 <= 255)%Z -> (0 <= ao_low s0 <= 255)%Z ->
  run ao_next s0 cs = run ao_next_unb s0 cs.
Proof. exact (ao_saturation_unobservable s0 cs). Qed.

(** (6) the rounding link itself, proved for the running sum (cumulative Integral): on binary64 - Flocq's correctness of IEEE
    addition through the PrimFloat bridge - the model's output after n finite inputs, none of whose partial sums overflows, is
    within 2^-53 * n * M of the exact sum of the same inputs (M bounds the magnitudes of the partial sums): the error grows at
    most linearly with the length of the stream, the shape of the allowance A(t) used by the checks.  [sum_okb] decides the
    hypothesis by computation. *)
From Yata Require Import Proofs.RoundingLink.
From Coq Require Import Reals List.
Theorem C07_cumulative_sum_rounding_link (xs : list PrimFloat.float) (x : PrimFloat.float) (M : R) :
  let l := rev (xs ++ [x]) in
  sum_ok l -> (forall y r, (exists p, l = p ++ y :: r) -> (Rabs (val (@cumsum NumF64 r) + val y) <= M)%R) ->
  exists s0, integral_new (pw := PW8) (N := NumF64) 0 1%float = Ok s0 /\
    (Rabs (val (snd (integral_next (pw := PW8) (steps (integral_next (pw := PW8)) s0 xs) x)) - @cumsum NumR (map val l))
     <= u64 * (INR (length l) * M))%R.
Proof. exact (integral0_f64_accuracy xs x M). Qed.
Theorem C07_binary64_addition_error (x y : PrimFloat.float) : fin x -> fin y -> fin (x + y)%float ->
  exists eps, (Rabs eps <= u64)%R /\ val (x + y)%float = ((val x + val y) * (1 + eps))%R.
Proof. intros Fx Fy Fs. exact (proj2 (f64_add_error x y Fx Fy (finite_sum_no_overflow x y Fx Fy Fs))). Qed.
(** the sliding sum  s' = (s + x) - old  of the windowed methods (Integral(n), and the running sums of SMA, WMA, StDev, CMO, MFI,
    ...): two roundings per step; the binary64 value stays within 2^-53 times the magnitudes of ALL additions and subtractions
    performed so far of the exact recurrence (which is the exact window sum, C02) - a bound that grows with the stream and does not
    shrink when large values leave the window: the proved counterpart of the residue findings *)
Theorem C07_sliding_sum_rounding_link (s0 : PrimFloat.float) (l : list (PrimFloat.float * PrimFloat.float)) : slide_ok s0 l ->
  fin (slide_f s0 l) /\
  (Rabs (val (slide_f s0 l) - slide_r (val s0) (map (fun p => (val (fst p), val (snd p))) l)) <= u64 * slide_scale s0 l)%R.
Proof. exact (sliding_sum_rounding_link s0 l). Qed.
(** (7) the exponential average does NOT lose accuracy with the length of the stream: the binary64 recurrence
    y' = fma (x - y) alpha y  of the model (Flocq's verified fma: the term that is run against the implementation) stays within
    (7 * 2^-53 * m + 2^-1075) / alpha of the exact recurrence on the same inputs after ANY number of steps, m a bound on the
    magnitudes of inputs and states - a bound without the stream length in it (the factor (1 - alpha) contracts the rounding error
    of every earlier step).  The hypothesis [ema_boundb] (finite inputs and states within m: nothing overflows) is decided by
    computation on a concrete stream. *)
From Yata Require Import Proofs.RoundingLinkEma.
Theorem C07_ema_error_independent_of_length (a y0 m : PrimFloat.float) (xs : list PrimFloat.float) :
  fin a -> fin y0 -> fin m -> (0 < val a <= 1)%R -> ema_boundb a y0 m (rev xs) = true ->
  (Rabs (val (ema_value (steps (ema_next (N := NumF64)) (mkEMA a y0) xs))
        - ema_value (steps (ema_next (N := NumR)) (@mkEMA NumR (val a) (val y0)) (map val xs)))
   <= (7 * u64 * val m + eta64) / val a)%R.
Proof. exact (ema_model_accuracy a y0 m xs). Qed.
Theorem C07_binary64_fma_error (x y z : PrimFloat.float) : fin x -> fin y -> fin z -> fin (f64_fma x y z) ->
  exists eps eta, (Rabs eps <= u64)%R /\ (Rabs eta <= eta64)%R /\ val (f64_fma x y z) = ((val x * val y + val z) * (1 + eps) + eta)%R.
Proof. intros Fx Fy Fz Fs. exact (proj2 (f64_fma_error x y z Fx Fy Fz (finite_fma_no_overflow x y z Fx Fy Fz Fs))). Qed.
(** ... and so do the cascades DMA (EMA of EMA) and TMA (EMA of EMA of EMA): 2x and 3x the same bound, for every stream length *)
From Yata Require Import Proofs.RoundingLinkDma.
Theorem C07_dma_error_independent_of_length (a y0 m : PrimFloat.float) (xs : list PrimFloat.float) :
  fin a -> fin y0 -> fin m -> (0 < val a <= 1)%R ->
  ema_boundb a y0 m (rev xs) = true -> ema_boundb a y0 m (emaF_outs a y0 (rev xs)) = true ->
  (Rabs (val (dma_peek (steps (dma_next (N := NumF64)) (mkDMA (mkEMA a y0) (mkEMA a y0)) xs))
        - dma_peek (steps (dma_next (N := NumR)) (mkDMA (@mkEMA NumR (val a) (val y0)) (@mkEMA NumR (val a) (val y0))) (map val xs)))
   <= 2 * ((7 * u64 * val m + eta64) / val a))%R.
Proof. exact (dma_model_accuracy a y0 m xs). Qed.
Theorem C07_tma_error_independent_of_length (a y0 m : PrimFloat.float) (xs : list PrimFloat.float) :
  fin a -> fin y0 -> fin m -> (0 < val a <= 1)%R ->
  ema_boundb a y0 m (rev xs) = true -> ema_boundb a y0 m (emaF_outs a y0 (rev xs)) = true ->
  ema_boundb a y0 m (emaF_outs a y0 (emaF_outs a y0 (rev xs))) = true ->
  (Rabs (val (tma_peek (steps (tma_next (N := NumF64)) (mkTMA (mkDMA (mkEMA a y0) (mkEMA a y0)) (mkEMA a y0)) xs))
        - tma_peek (steps (tma_next (N := NumR))
            (mkTMA (mkDMA (@mkEMA NumR (val a) (val y0)) (@mkEMA NumR (val a) (val y0))) (@mkEMA NumR (val a) (val y0))) (map val xs)))
   <= 3 * ((7 * u64 * val m + eta64) / val a))%R.
Proof. exact (tma_model_accuracy a y0 m xs). Qed.
(** ... and RMA (y' = fma alpha x (alpha_rev * y)): within (2^-53 * (4m + 2^-1075) + 2^-1074) / (1 - alpha_rev) for every stream length *)
From Yata Require Import Proofs.RoundingLinkRma.
Theorem C07_rma_error_independent_of_length (a b y0 m : PrimFloat.float) (xs : list PrimFloat.float) :
  fin a -> fin b -> fin y0 -> fin m -> (0 <= val a <= 1)%R -> (0 <= val b < 1)%R -> rma_boundb a b y0 m (rev xs) = true ->
  (Rabs (val (rma_peek (steps (rma_next (N := NumF64)) (mkRMA a b y0) xs))
        - rma_peek (steps (rma_next (N := NumR)) (@mkRMA NumR (val a) (val b) (val y0)) (map val xs)))
   <= (u64 * (4 * val m + eta64) + 2 * eta64) / (1 - val b))%R.
Proof. exact (rma_model_accuracy a b y0 m xs). Qed.
(** (8) the SMA recurrence of the model, v' = v + (x - old) * d: the value held by the model's SMA after any stream is this recurrence
    over the pairs (input, value leaving the window) it met ([sma_pairs]: the window is the model's own), and on binary64 it stays
    within 2^-53 * (magnitudes of the operations performed so far) + n * 2^-1075 of the exact recurrence: linear growth, hypotheses
    decided by computation ([sma_okb]) *)
From Yata Require Import Proofs.RoundingLinkSma.
Theorem C07_sma_model_is_recurrence {pw : PW} (d v : PrimFloat.float) (w : window PrimFloat.float) xs :
  sma_value (steps (sma_next (N := NumF64)) (@mkSMA NumF64 d v w) xs) = smaF d v (rev (sma_pairs (N := NumF64) w xs)).
Proof. exact (sma_model_f d v w xs). Qed.
Theorem C07_sma_rounding_link (d v0 : PrimFloat.float) (l : list (PrimFloat.float * PrimFloat.float)) : fin d -> sma_okb d v0 l = true ->
  (Rabs (val (smaF d v0 l) - smaR (val d) (val v0) (map (fun p => (val (fst p), val (snd p))) l))
   <= u64 * sma_scale d v0 l + INR (length l) * eta64)%R.
Proof. intros Fd Hb. exact (proj2 (sma_rounding_link d v0 l Fd (sma_okb_ok d v0 l Fd Hb))). Qed.
