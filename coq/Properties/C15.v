(** C15 — Moving averages are averages: affine-equivariant, range-preserving, linear. *)
From Yata Require Import Base.Prelude Base.Num Base.NumR Core.Window Core.Candle Spec.Hist Spec.MethodDefs
  Methods.Basic Core.Strings Indicators.Common Spec.IndicatorDefs Proofs.MethodsCommon Proofs.Averages Proofs.MAProofs Proofs.Averages2 Proofs.Averages3 Proofs.Averages4 Proofs.Averages5.
From Coq Require Import Reals.

Section C15.
Local Notation R := (@F NumR).
Open Scope R_scope.
Theorem C15_sma_affine n a b (h : nat -> R) : (1 <= n)%nat -> sma_def n (fun i => a * h i + b) = a * sma_def n h + b.
Proof. exact (sma_affine n a b h). Qed.
Theorem C15_sma_superposition n (h g : nat -> R) : sma_def n (fun i => h i + g i) = sma_def n h + sma_def n g.
Proof. exact (sma_linear n h g). Qed.
Theorem C15_sma_range n lo hi (h : nat -> R) : (1 <= n)%nat -> (forall i, (i < n)%nat -> lo <= h i <= hi) -> lo <= sma_def n h <= hi.
Proof. exact (sma_range n lo hi h). Qed.
Theorem C15_sma_impulse n k : sma_def n (impulse k) = if Nat.ltb k n then / INR n else 0.
Proof. exact (sma_impulse n k). Qed.
Theorem C15_wma_affine n a b (h : nat -> R) : (1 <= n)%nat -> wma_def n (fun i => a * h i + b) = a * wma_def n h + b.
Proof. exact (wma_affine n a b h). Qed.
Theorem C15_wma_superposition n (h g : nat -> R) : wma_def n (fun i => h i + g i) = wma_def n h + wma_def n g.
Proof. exact (wma_linear n h g). Qed.
Theorem C15_wma_range n lo hi (h : nat -> R) : (1 <= n)%nat -> (forall i, (i < n)%nat -> lo <= h i <= hi) -> lo <= wma_def n h <= hi.
Proof. exact (wma_range n lo hi h). Qed.
Theorem C15_wma_impulse n k : wma_def n (impulse k) =
  if Nat.ltb k n then INR (n - k) / IZR (Z.of_nat n * (Z.of_nat n + 1) / 2) else 0.
Proof. exact (wma_impulse n k). Qed.
(** the EMA recurrence (EMA, RMA, WSMA and, by composition, DMA/TMA/DEMA/TEMA) for any smoothing factor *)
Theorem C15_ema_affine (al x0 a b : R) rh : ema_rec al (a * x0 + b) (map (fun x => a * x + b) rh) = a * ema_rec al x0 rh + b.
Proof. exact (ema_affine al x0 a b rh). Qed.
Theorem C15_ema_superposition (al x0 y0 : R) rh rg : length rh = length rg ->
  ema_rec al (x0 + y0) (map (fun p => fst p + snd p) (combine rh rg)) = ema_rec al x0 rh + ema_rec al y0 rg.
Proof. exact (ema_linear al x0 y0 rh rg). Qed.
Theorem C15_ema_range (al x0 lo hi : R) rh : 0 <= al <= 1 -> lo <= x0 <= hi -> (forall x, In x rh -> lo <= x <= hi) ->
  lo <= ema_rec al x0 rh <= hi.
Proof. exact (ema_range al x0 lo hi rh). Qed.
Theorem C15_ema_alpha_in_unit n : (1 <= n)%Z -> 0 <= MethodDefs.ema_alpha (N := NumR) n <= 1.
Proof. exact (ema_alpha_range n). Qed.
Theorem C15_rma_alpha_in_unit n : (1 <= n)%Z -> 0 <= MethodDefs.rma_alpha (N := NumR) n <= 1.
Proof. exact (rma_alpha_range n). Qed.
Theorem C15_ema_impulse (al : R) k : ema_rec al 0 (repeat 0 k ++ [1]) = al * (1 - al) ^ k.
Proof. exact (ema_impulse al k). Qed.
End C15.

(** transfer to the running method (through C02's correctness theorem) *)
Theorem C15_sma_method_affine {pw : PW} n (a b v : @F NumR) xs x : (1 <= n <= pmax - 1)%Z ->
  exists s0 s1, sma_new n v = Ok s0 /\ sma_new n (aff a b v) = Ok s1 /\
    snd (sma_next (steps sma_next s1 (map (aff a b) xs)) (aff a b x)) =
    aff a b (snd (sma_next (steps sma_next s0 xs) x)).
Proof. exact (sma_method_affine n a b v xs x). Qed.

(** every averaging kind of the MA constructor that has a method theorem, except SWMA, SMM and Vidya (12 kinds: sma wma hma rma ema
    dma dema tma tema wsma trima linreg): the instance built by the constructor is affine-equivariant on every stream *)
Theorem C15_ma_constructor_affine {pw : PW} (c : ma_cfg) (a b v : @F NumR) xs x :
  ma_proved c = true -> not_swma c = true -> ma_len_ok c ->
  exists s0 s1, ma_init c v = Ok s0 /\ ma_init c (aff a b v) = Ok s1 /\
    snd (ma_next (steps ma_next s1 (map (aff a b) xs)) (aff a b x)) = aff a b (snd (ma_next (steps ma_next s0 xs) x)).
Proof. exact (ma_method_affine' c a b v xs x). Qed.
Theorem C15_trima_affine n a b (h : nat -> @F NumR) : (1 <= n)%nat -> trima_def n (fun i => a * h i + b)%R = (a * trima_def n h + b)%R.
Proof. exact (trima_affine n a b h). Qed.
Theorem C15_hma_affine n n2 n3 a b (h : nat -> @F NumR) : (1 <= n)%nat -> (1 <= n2)%nat -> (1 <= n3)%nat ->
  hma_def n n2 n3 (fun i => a * h i + b)%R = (a * hma_def n n2 n3 h + b)%R.
Proof. exact (hma_affine n n2 n3 a b h). Qed.
Theorem C15_lin_reg_affine n a b (h : nat -> @F NumR) : (1 <= n)%nat -> linreg_def n (fun i => a * h i + b)%R = (a * linreg_def n h + b)%R.
Proof. exact (linreg_affine n a b h). Qed.

(** the remaining three kinds, and with them ALL 15 kinds of the MA constructor *)
Theorem C15_swma_affine n a b (h : nat -> @F NumR) : (1 <= n)%nat -> swma_def n (fun i => a * h i + b)%R = (a * swma_def n h + b)%R.
Proof. exact (swma_affine n a b h). Qed.
Theorem C15_median_affine {pw : PW} n a b (h : nat -> @F NumR) : (1 <= n)%nat -> median_def n (fun i => a * h i + b)%R = (a * median_def n h + b)%R.
Proof. exact (median_affine n a b h). Qed.
Theorem C15_vidya_affine n a b (x0 : @F NumR) rh :
  vidya_rec n (a * x0 + b)%R (map (fun y => a * y + b)%R rh) = (a * vidya_rec n x0 rh + b)%R.
Proof. exact (vidya_affine n a b x0 rh). Qed.
Theorem C15_ma_constructor_affine_all {pw : PW} (c : ma_cfg) (a b v : @F NumR) xs x : ma_len_ok c ->
  exists s0 s1, ma_init c v = Ok s0 /\ ma_init c (aff a b v) = Ok s1 /\
    snd (ma_next (steps ma_next s1 (map (aff a b) xs)) (aff a b x)) = aff a b (snd (ma_next (steps ma_next s0 xs) x)).
Proof. exact (ma_method_affine_all c a b v xs x). Qed.

(** superposition for ALL thirteen linear kinds of the MA constructor (every kind but the moving median and Vidya): the definition
    is additive in the history, and so is the running instance for every accepted length and every pair of equally long streams *)
From Yata Require Import Proofs.Linear.
Theorem C15_ma_superposition_all_kinds {pw : PW} (c : ma_cfg) (x0 y0 : @F NumR) rh rg : ma_linear_kind c = true -> length rh = length rg ->
  ma_def c (x0 + y0)%R (zsum rh rg) = (ma_def c x0 rh + ma_def c y0 rg)%R.
Proof. exact (ma_def_superposition c x0 y0 rh rg). Qed.
Theorem C15_ma_constructor_superposition {pw : PW} (c : ma_cfg) (v w : @F NumR) xs ys x y :
  ma_linear_kind c = true -> ma_len_ok c -> length xs = length ys ->
  exists s1 s2 s3, ma_init c v = Ok s1 /\ ma_init c w = Ok s2 /\ ma_init c (v + w)%R = Ok s3 /\
    snd (ma_next (steps ma_next s3 (zsum xs ys)) (x + y)%R) =
    (snd (ma_next (steps ma_next s1 xs) x) + snd (ma_next (steps ma_next s2 ys) y))%R.
Proof. exact (ma_method_superposition c v w xs ys x y). Qed.

(** range: the kinds with non-negative weights (SMA, WMA, EMA, DMA, TMA, RMA, WSMA) stay between the smallest and the largest value
    they have been given - definition and running instance, every accepted length, every stream *)
From Yata Require Import Proofs.RangeMA Proofs.IndicatorProofs11.
Theorem C15_ma_constructor_range {pw : PW} (c : ma_cfg) (v lo hi : @F NumR) xs x : ma_no_overshoot c = true -> ma_len_ok c ->
  (1 <= ma_period c)%Z -> (lo <= v <= hi)%R -> (forall z, In z (xs ++ [x]) -> (lo <= z <= hi)%R) ->
  exists s0, ma_init c v = Ok s0 /\ (lo <= snd (ma_next (steps ma_next s0 xs) x) <= hi)%R.
Proof.
  intros Hk Hl Hn Hv Hin. destruct (ma_correct c v xs x (ma_proved_all c) Hl) as (s0 & E & H). exists s0. split; [exact E|]. rewrite H.
  apply ma_def_range; try assumption. intros z Hz. apply Hin. apply in_rev. exact Hz.
Qed.

(** impulse response of LinReg: the least-squares end-point weights (the oldest inputs get NEGATIVE weights: LinReg is linear and
    affine-equivariant but not range-preserving) *)
From Yata Require Import Proofs.LinRegImpulse.
Theorem C15_lin_reg_impulse n k : (2 <= n)%nat -> (k < n)%nat ->
  linreg_def n (impulse k) = (2 * (2 * INR n - 1 - 3 * INR k) / (INR n * (INR n + 1)))%R.
Proof. exact (linreg_impulse n k). Qed.

(** range preservation on BINARY64 itself: the binary64 EMA recurrence y' = fma(x - y, alpha, y) with 0 <= alpha <= 1/2 (every
    length >= 3) never leaves the interval spanned by its construction value and its inputs - exactly, with no rounding allowance,
    after any number of steps (rounding is monotone and fixes floats); [emaF] is the model's recurrence (C07_ema_...) *)
From Yata Require Import Base.NumF64 Proofs.RoundingLink Proofs.RoundingLinkEma Proofs.Binary64Rsi.
Theorem C15_ema_binary64_range (a y0 : PrimFloat.float) (lo hi : R) (l : list PrimFloat.float) : fin a -> (0 <= val a <= / 2)%R ->
  fin y0 -> (lo <= val y0 <= hi)%R -> (- half_big <= lo)%R -> (hi <= half_big)%R ->
  Forall (fun x => fin x /\ (lo <= val x <= hi)%R) l ->
  fin (emaF a y0 l) /\ (lo <= val (emaF a y0 l) <= hi)%R.
Proof. exact (ema_binary64_between a y0 lo hi l). Qed.
