(** C12 — Documented value ranges and ordering invariants hold on every valid stream (exact arithmetic). *)
From Yata Require Import Base.Prelude Base.Num Base.NumR Core.Window Core.Candle Core.Action Core.Strings
  Spec.Hist Spec.MethodDefs Spec.IndicatorDefs Methods.Basic Methods.Select Indicators.Common Indicators.Set1 Indicators.Set2 Indicators.Set3 Proofs.Ranges Proofs.Averages
  Proofs.IndicatorProofs2 Proofs.IndicatorProofs3 Proofs.IndicatorProofs6 Proofs.IndicatorProofs4 Indicators.Set5 Proofs.IndicatorProofs15 Proofs.TsxRange Proofs.MAProofs Proofs.IndicatorProofs5 Proofs.IndicatorProofs11 Proofs.RangeMA Proofs.Windowed Proofs.Windowed3 Proofs.Windowed4.
From Coq Require Import Reals Lra Lia.
Open Scope R_scope.

Section C12.
Context {pw : PW}.
Local Notation R := (@F NumR).
Local Notation C := (candle (N := NumR)).
Theorem C12_stdev_nonneg n (h : nat -> R) : 0 <= stdev_def n h. Proof. exact (stdev_nonneg n h). Qed.
Theorem C12_mean_abs_dev_nonneg n (h : nat -> R) : (1 <= n)%nat -> 0 <= mad_def n h. Proof. exact (mad_nonneg n h). Qed.
Theorem C12_linear_volatility_nonneg n (h : nat -> R) : 0 <= linvol_def n h. Proof. exact (linvol_nonneg n h). Qed.
Theorem C12_true_range_nonneg (c : C) pc : c_low c <= c_high c -> 0 <= c_tr_close c pc. Proof. exact (true_range_nonneg c pc). Qed.
Theorem C12_clv_range (c : C) : c_low c <= c_close c <= c_high c -> -1 <= c_clv c <= 1. Proof. exact (clv_in_range c). Qed.
Theorem C12_bollinger_order n sigma src (c0 : C) rcs : 0 <= sigma ->
  match boll_values n sigma src c0 rcs with [u; m; l] => l <= m <= u | _ => False end.
Proof. exact (bollinger_order n sigma src c0 rcs). Qed.
Theorem C12_donchian_contains n (c0 : C) rcs i : (i < Z.to_nat n)%nat ->
  match donch_values n c0 rcs with
  | [lo; mid; hi] => lo <= c_low (hget c0 rcs i) /\ c_high (hget c0 rcs i) <= hi
  | _ => False end.
Proof. exact (donchian_contains n c0 rcs i). Qed.
Theorem C12_aroon_range n (c0 : C) rcs : (1 <= n)%Z -> Forall (fun v => 0 <= v <= 1) (aroon_values n c0 rcs).
Proof. exact (aroon_range n c0 rcs). Qed.
Theorem C12_cmo_range n src (c0 : C) rcs : Forall (fun v => -1 <= v <= 1) (cmo_values n src c0 rcs).
Proof. exact (cmo_range n src c0 rcs). Qed.
Theorem C12_mfi_range n zone (c0 : C) rcs : c_volume c0 >= 0 -> (forall c, In c rcs -> c_volume c >= 0) ->
  match mfi_values n zone c0 rcs with [_; v; _] => 0 <= v <= 1 | _ => False end.
Proof. exact (mfi_range n zone c0 rcs). Qed.
Theorem C12_cmf_range n (c0 : C) rcs :
  (forall i, c_low (hget c0 rcs i) <= c_close (hget c0 rcs i) <= c_high (hget c0 rcs i) /\ 0 <= c_volume (hget c0 rcs i)) ->
  0 < gsum (N := NumR) (Z.to_nat n) (fun i => c_volume (hget c0 rcs i)) ->
  Forall (fun v => -1 <= v <= 1) (cmf_values n c0 rcs).
Proof. exact (cmf_range n c0 rcs). Qed.
Theorem C12_stochastic_raw_range n (c0 : C) rcs : (1 <= n)%Z ->
  c_low (hget c0 rcs O) <= c_close (hget c0 rcs O) <= c_high (hget c0 rcs O) -> 0 <= sto_raw n c0 rcs <= 1.
Proof. exact (sto_raw_range n c0 rcs). Qed.
Theorem C12_price_channel_order n sigma (c0 : C) rcs : (1 <= n)%Z -> 0 <= sigma ->
  c_low (hget c0 rcs O) <= c_high (hget c0 rcs O) ->
  match pch_values n sigma c0 rcs with [u; l] => l <= u | _ => False end.
Proof. exact (pch_order n sigma c0 rcs). Qed.
Theorem C12_tsi_range short long (x0 : R) rh : (1 <= short)%Z -> (1 <= long)%Z -> -1 <= tsi_def short long x0 rh <= 1.
Proof. exact (tsi_range short long x0 rh). Qed.
Theorem C12_psar_side (s : psar_st (N := NumR)) (k : C) : ps_trend s <> 0%Z ->
  match snd (psar_next s k) with
  | ([sar; tr], _) => (0 < tr -> sar <= c_low k) /\ (tr < 0 -> c_high k <= sar)
  | _ => False
  end.
Proof. exact (psar_side s k). Qed.
(** range preservation of the averaging kinds (C15) is what keeps RSI / Stochastic inside [0,1] *)
Theorem C12_ema_stays_in_range (al x0 lo hi : R) rh : 0 <= al <= 1 -> lo <= x0 <= hi -> (forall x, In x rh -> lo <= x <= hi) ->
  lo <= ema_rec al x0 rh <= hi.
Proof. exact (ema_range al x0 lo hi rh). Qed.

(** ---- end to end: the MODEL of the code (not only the formula) stays inside the documented range after every stream,
    in exact arithmetic: composition of the value theorems of C05 with the range theorems above *)
(** "averaging kinds that cannot overshoot": SMA, WMA, EMA, DMA, TMA, RMA, WSMA (non-negative weights) keep any interval that
    contains the construction value and the inputs; RSI and both Stochastic lines configured with them stay in [0, 1] - the
    formulas for every history, and the MODEL of the code after every stream *)
Theorem C12_ma_no_overshoot (c : ma_cfg) (x0 lo hi : R) rh : ma_no_overshoot c = true -> (1 <= ma_period c)%Z ->
  lo <= x0 <= hi -> (forall x, In x rh -> lo <= x <= hi) -> lo <= ma_def c x0 rh <= hi.
Proof. exact (ma_def_range c x0 lo hi rh). Qed.
Theorem C12_rsi_range (ma : ma_cfg) src (c0 : C) rcs : ma_no_overshoot ma = true -> (1 <= ma_period ma)%Z ->
  Forall (fun v => 0 <= v <= 1) (rsi_values ma src c0 rcs).
Proof. exact (rsi_values_range ma src c0 rcs). Qed.
Theorem C12_stochastic_range n (ma signal : ma_cfg) (c0 : C) rcs : (1 <= n)%Z ->
  ma_no_overshoot ma = true -> (1 <= ma_period ma)%Z -> ma_no_overshoot signal = true -> (1 <= ma_period signal)%Z ->
  candle_ordered c0 -> Forall candle_ordered rcs -> Forall (fun v => 0 <= v <= 1) (sto_values n ma signal c0 rcs).
Proof. exact (sto_values_range n ma signal c0 rcs). Qed.
Theorem C12_rsi_model_range (cfg : rsi_cfg (N := NumR)) (c0 : C) cs c : rsi_validate cfg = true ->
  ma_no_overshoot (rc_ma cfg) = true -> ma_len_ok (rc_ma cfg) ->
  exists s0, rsi_init cfg c0 = Ok s0 /\ Forall (fun v => 0 <= v <= 1) (fst (snd (rsi_next (steps rsi_next s0 cs) c))).
Proof.
  intros Hv Hk Hl. destruct (rsi_values_correct cfg c0 cs c Hv (ma_proved_all _) Hl) as (s0 & E & H). exists s0. split; [exact E|].
  rewrite H. apply rsi_values_range; [exact Hk|]. unfold rsi_validate in Hv. apply andb_prop in Hv. destruct Hv as (Hv & _). apply andb_prop in Hv.
  destruct Hv as (Hv & _). apply Z.ltb_lt in Hv. lia.
Qed.
Theorem C12_stochastic_model_range (cfg : sto_cfg (N := NumR)) (c0 : C) cs c : sto_validate cfg = true -> (sc_period cfg <= pmax - 1)%Z ->
  ma_no_overshoot (sc_ma cfg) = true -> ma_len_ok (sc_ma cfg) -> ma_no_overshoot (sc_signal cfg) = true -> ma_len_ok (sc_signal cfg) ->
  (1 <= ma_period (sc_ma cfg))%Z -> (1 <= ma_period (sc_signal cfg))%Z ->
  candle_ordered c0 -> Forall candle_ordered (cs ++ [c]) ->
  exists s0, sto_init cfg c0 = Ok s0 /\ Forall (fun v => 0 <= v <= 1) (fst (snd (sto_next (steps sto_next s0 cs) c))).
Proof.
  intros Hv Hm K1 L1 K2 L2 N1 N2 H0 Hall.
  destruct (stochastic_values_correct cfg c0 cs c Hv Hm (ma_proved_all _) L1 (ma_proved_all _) L2) as (s0 & E & H). exists s0. split; [exact E|].
  rewrite H. apply sto_values_range; try assumption.
  - unfold sto_validate in Hv. apply andb_prop in Hv. destruct Hv as (Hv & _). apply andb_prop in Hv. destruct Hv as (Hv & _). apply Z.ltb_lt in Hv. lia.
  - apply Forall_rev. exact Hall.
Qed.
(** Keltner channel and Envelopes: upper >= average >= lower (formula, then the MODEL of the code after every stream) *)
Theorem C12_keltner_order (ma : ma_cfg) (sigma : R) src (c0 : C) rcs : (1 <= ma_period ma)%Z -> 0 <= sigma ->
  candle_hl c0 -> Forall candle_hl rcs ->
  match kelt_values ma sigma src c0 rcs with [_; up; lo] => lo <= ma_def ma (c_source c0 src) (srcs src rcs) <= up | _ => False end.
Proof. exact (kelt_values_order ma sigma src c0 rcs). Qed.
Theorem C12_envelopes_order (ma : ma_cfg) (k : R) src src2 (c0 : C) rcs : ma_no_overshoot ma = true -> (1 <= ma_period ma)%Z -> 0 <= k ->
  0 <= c_source c0 src -> (forall c, In c rcs -> 0 <= c_source c src) ->
  match env_values ma k src src2 c0 rcs with [up; lo; _] => lo <= ma_def ma (c_source c0 src) (srcs src rcs) <= up | _ => False end.
Proof. exact (env_values_order ma k src src2 c0 rcs). Qed.
Theorem C12_keltner_model_order (ma : ma_cfg) (sigma : R) src (c0 : C) cs c :
  (1 < ma_period ma <= pmax - 1)%Z -> 0 < sigma -> ma_len_ok ma -> candle_hl c0 -> Forall candle_hl (cs ++ [c]) ->
  exists s0, kelt_init ma sigma src c0 = Ok s0 /\
    match fst (snd (kelt_next (steps kelt_next s0 cs) c)) with [_; up; lo] => lo <= up | _ => False end.
Proof.
  intros Hp Hs Hl H0 Hall. destruct (keltner_values_correct ma sigma src c0 cs c Hp Hs (ma_proved_all _) Hl) as (s0 & E & H).
  exists s0. split; [exact E|]. rewrite H.
  pose proof (kelt_values_order ma sigma src c0 (rev (cs ++ [c])) ltac:(lia) ltac:(lra) H0 (Forall_rev Hall)) as O.
  unfold kelt_values in *. cbv zeta in *. lra.
Qed.
(** SMI ergodic (TSI-based): the TSI line and its signal line stay in [-1, 1] - formula and MODEL *)
Theorem C12_smi_ergodic_model_range p1 p2 (signal : ma_cfg) (zone : R) src (c0 : C) cs c :
  (1 < p2 <= p1)%Z -> (p1 < pmax)%Z -> (1 < ma_period signal < pmax)%Z -> 0 <= zone <= 1 -> ma_len_ok signal -> ma_no_overshoot signal = true ->
  exists s0, smi_init p1 p2 signal zone src c0 = Ok s0 /\
    match fst (snd (smi_next (steps smi_next s0 cs) c)) with [t; sg; _] => -1 <= t <= 1 /\ -1 <= sg <= 1 | _ => False end.
Proof.
  intros H1 H2 H3 Hz Hl Hk. destruct (smi_values_correct p1 p2 signal zone src c0 cs c H1 H2 H3 Hz Hl) as (s0 & E & H).
  exists s0. split; [exact E|]. rewrite H. cbv zeta. apply smi_lines_range; try assumption; lia.
Qed.
(** dispersion measures of the MODEL are never negative, after every stream (exact arithmetic) *)
Theorem C12_stdev_model_nonneg n (v : R) xs x : (2 <= n <= pmax - 1)%Z ->
  exists s0, stdev_new n v = Ok s0 /\ 0 <= snd (stdev_next (steps stdev_next s0 xs) x).
Proof. intros Hn. destruct (stdev_correct n v xs x Hn) as (s0 & E & H). exists s0. split; [exact E|]. rewrite H. apply stdev_nonneg. Qed.
Theorem C12_mean_abs_dev_model_nonneg n (v : R) xs x : (1 <= n <= pmax - 1)%Z ->
  exists s0, mad_new n v = Ok s0 /\ 0 <= snd (mad_next (steps mad_next s0 xs) x).
Proof. intros Hn. destruct (mad_correct n v xs x Hn) as (s0 & E & H). exists s0. split; [exact E|]. rewrite H. apply mad_nonneg. lia. Qed.
Theorem C12_linear_volatility_model_nonneg n (v : R) xs x : (1 <= n <= pmax - 1)%Z ->
  exists s0, linvol_new n v = Ok s0 /\ 0 <= snd (linvol_next (steps linvol_next s0 xs) x).
Proof. intros Hn. destruct (linvol_correct n v xs x Hn) as (s0 & E & H). exists s0. split; [exact E|]. rewrite H. apply linvol_nonneg. Qed.
Theorem C12_cmo_model_range period zone src (c0 : C) cs c : cmo_validate period zone = true ->
  exists s0, cmo_init period zone src c0 = Ok s0 /\
    Forall (fun v => -1 <= v <= 1) (fst (snd (cmo_next (steps cmo_next s0 cs) c))).
Proof.
  intros Hv. destruct (cmo_values_correct period zone src c0 cs c Hv) as (s0 & E & H). exists s0. split; [exact E|].
  rewrite H. apply cmo_range.
Qed.
Theorem C12_mfi_model_range period zone (c0 : C) cs c : mfi_validate period zone = true ->
  c_volume c0 >= 0 -> (forall k, In k (cs ++ [c]) -> c_volume k >= 0) ->
  exists s0, mfi_init period zone c0 = Ok s0 /\
    match fst (snd (mfi_next (steps mfi_next s0 cs) c)) with [_; v; _] => 0 <= v <= 1 | _ => False end.
Proof.
  intros Hv H0 Hc. destruct (mfi_values_correct period zone c0 cs c Hv) as (s0 & E & H). exists s0. split; [exact E|].
  rewrite H. apply mfi_range; [exact H0|]. intros k Hk. apply Hc. apply in_rev. exact Hk.
Qed.
Theorem C12_aroon_model_range n zone ozp (c0 : C) cs c : aroon_validate n zone ozp = true ->
  exists s0, aroon_init n zone ozp c0 = Ok s0 /\
    Forall (fun v => 0 <= v <= 1) (fst (snd (aroon_next (steps aroon_next s0 cs) c))).
Proof.
  intros Hv. destruct (aroon_values_correct n zone ozp c0 cs c Hv) as (s0 & E & H). exists s0. split; [exact E|].
  rewrite H. apply aroon_range.
  unfold aroon_validate in Hv. repeat (apply andb_prop in Hv; destruct Hv as (Hv & ?)).
  repeat match goal with H : (_ <? _)%Z = true |- _ => apply Z.ltb_lt in H end. lia.
Qed.
Theorem C12_bollinger_model_order (cfg : boll_cfg (N := NumR)) (c0 : C) cs c : boll_validate cfg = true ->
  exists s0, boll_init cfg c0 = Ok s0 /\
    match fst (snd (boll_next (steps boll_next s0 cs) c)) with [u; m; l] => l <= m <= u | _ => False end.
Proof.
  intros Hv. destruct (bollinger_values_correct cfg c0 cs c Hv) as (s0 & E & H). exists s0. split; [exact E|].
  rewrite H. apply bollinger_order.
  unfold boll_validate in Hv. apply andb_prop in Hv. destruct Hv as (Hv & _). apply andb_prop in Hv. destruct Hv as (Hv & _).
  revert Hv. unfold fgt. cbn [flt NumR f0]. unfold f0. cbn. intros Hv. destruct (Rltb_spec 0 (bc_sigma cfg)); [|discriminate]. apply Rlt_le. assumption.
Qed.
Theorem C12_donchian_model_contains n (c0 : C) cs c i : (2 <= n <= pmax - 1)%Z -> (i < Z.to_nat n)%nat ->
  exists s0, donch_init n c0 = Ok s0 /\
    match fst (snd (donch_next (steps donch_next s0 cs) c)) with
    | [lo; mid; hi] => lo <= c_low (hget c0 (rev (cs ++ [c])) i) /\ c_high (hget c0 (rev (cs ++ [c])) i) <= hi
    | _ => False end.
Proof.
  intros Hn Hi. destruct (donchian_values_correct n c0 cs c Hn) as (s0 & E & H). exists s0. split; [exact E|].
  rewrite H. apply donchian_contains. exact Hi.
Qed.
Theorem C12_cmf_model_range size (c0 : C) cs c : (1 < size < pmax)%Z ->
  (forall i, let k := hget c0 (rev (cs ++ [c])) i in c_low k <= c_close k <= c_high k /\ 0 <= c_volume k) ->
  0 < gsum (N := NumR) (Z.to_nat size) (fun i => c_volume (hget c0 (rev (cs ++ [c])) i)) ->
  exists s0, cmf_init size c0 = Ok s0 /\
    Forall (fun v => -1 <= v <= 1) (fst (snd (cmf_next (steps cmf_next s0 cs) c))).
Proof.
  intros Hs Hc Hv. destruct (cmf_values_correct size c0 cs c Hs) as (s0 & E & H). exists s0. split; [exact E|].
  rewrite H. apply cmf_range; assumption.
Qed.
Theorem C12_price_channel_model_order n (sigma : R) (c0 : C) cs c : (2 <= n <= pmax - 1)%Z -> 0 < sigma <= 1 ->
  c_low c <= c_high c ->
  exists s0, pch_init n sigma c0 = Ok s0 /\
    match fst (snd (pch_next (steps pch_next s0 cs) c)) with [u; l] => l <= u | _ => False end.
Proof.
  intros Hn Hs Hc. destruct (price_channel_values_correct n sigma c0 cs c Hn Hs) as (s0 & E & H). exists s0. split; [exact E|].
  rewrite H. apply pch_order; [lia|lra|]. rewrite rev_unit. exact Hc.
Qed.
Theorem C12_true_strength_model_range p1 p2 p3 zone src (c0 : C) cs c : tsii_validate p1 p2 p3 zone = true ->
  exists s0, tsii_init p1 p2 p3 zone src c0 = Ok s0 /\
    Forall (fun v => -1 <= v <= 1) (fst (snd (tsii_next (steps tsii_next s0 cs) c))).
Proof.
  intros Hv. destruct (tsii_values_correct p1 p2 p3 zone src c0 cs c Hv) as (s0 & E & H). exists s0. split; [exact E|].
  assert (Hr : (2 <= p2 <= p1)%Z /\ (2 <= p3)%Z).
  { unfold tsii_validate in Hv. repeat (apply andb_prop in Hv; destruct Hv as (Hv & ?)).
    repeat match goal with H : (_ <? _)%Z = true |- _ => apply Z.ltb_lt in H | H : (_ <=? _)%Z = true |- _ => apply Z.leb_le in H end. lia. }
  rewrite H. unfold tsii_values. cbv zeta. constructor; [apply tsi_range; lia|]. constructor; [|constructor].
  unfold ema_def. apply (ema_range _ _ (-1) 1).
  - apply ema_alpha_unit. lia.
  - unfold f0. cbn. lra.
  - intros x Hx. unfold series in Hx. apply in_map_iff in Hx. destruct Hx as (l & <- & _). apply tsi_range; lia.
Qed.
(** TrendStrengthIndex: the value is the correlation coefficient of the window with a ramp, so it lies in [-1, 1]
    (Cauchy-Schwarz; in exact arithmetic a flat window gives 0 / sqrt 0, read as 0 - the binary64 code returns NaN there,
    where the formula is undefined) *)
Theorem C12_tsx_range period (h : nat -> R) : (1 <= period)%Z -> -1 <= tsx_def period h <= 1.
Proof. exact (tsx_range period h). Qed.
Theorem C12_trend_strength_model_range period (zone : R) offset src (c0 : C) cs c :
  (1 < period < pmax)%Z -> 0 <= zone < 1 -> (0 < offset < period)%Z -> (4 < pmax)%Z ->
  exists s0, tsx_init period zone offset src c0 = Ok s0 /\
    Forall (fun v => -1 <= v <= 1) (fst (snd (tsx_next (steps tsx_next s0 cs) c))).
Proof.
  intros Hp Hz Ho Hm. destruct (trend_strength_values_correct period zone offset src c0 cs c Hp Hz Ho Hm) as (s0 & E & H).
  exists s0. split; [exact E|]. rewrite H. constructor; [|constructor]. apply tsx_range. lia.
Qed.
End C12.

(** Known findings KF-C12-{cmo,mfi,rsi}-residue: on the faithful binary64 model (kernel computation) the running sums of
    these three oscillators keep rounding residue of earlier, larger prices; the quotient of two residues leaves the
    documented interval.  Witnesses found by the search on the implementation and minimised. *)
From Yata Require Import Base.NumF64 Indicators.Set2.
From Coq Require Import Floats.
Definition flatc (x v : float) : candle (N := NumF64) := mkCandle (N := NumF64) x x x x v.
Definition last_vals {S} (init : outcome S) (next : S -> candle (N := NumF64) -> S * iresult (N := NumF64))
    (cs : list (candle (N := NumF64))) : list float :=
  match init with
  | Ok s => fst (snd (fold_left (fun st c => next (fst st) c) cs (s, ([], []))))
  | _ => []
  end.
Theorem C12_cmo_residue_refuted :
  exists v, last_vals (cmo_init (pw := PW8) 2 0.5%float SClose (flatc 100000000 7)) (cmo_next (pw := PW8))
              [flatc 100 1; flatc 0.7 0.1; flatc 1 10000; flatc 2.5 0.1] = [v] /\ PrimFloat.ltb 1 v = true.
Proof. eexists. split; vm_compute; reflexivity. Qed.
Theorem C12_mfi_residue_refuted :
  exists u v l, last_vals (mfi_init (pw := PW8) 2 0.2%float (flatc 10000 3)) (mfi_next (pw := PW8))
              [flatc 3 10000; flatc 0.001 0.1; flatc 2.5 7; flatc 100000000 0.1; flatc 100000000 0.1; flatc 100000000 1]
              = [u; v; l] /\ PrimFloat.ltb v 0 = true.
Proof. do 3 eexists. split; vm_compute; reflexivity. Qed.
Theorem C12_rsi_residue_refuted :
  exists v, last_vals (rsi_init (pw := PW8) (mkRsiCfg (MAcfg KWMA 3) 0.3%float SClose) (flatc 100 1)) (rsi_next (pw := PW8))
              [flatc 0.001 1; flatc 7 1; flatc 7 1; flatc 7 1; flatc 7 1] = [v] /\ PrimFloat.ltb v 0 = true.
Proof. eexists. split; vm_compute; reflexivity. Qed.
(** KF-C12-cmf-residue: three bars closing on their low (CLV = -1 exactly), volumes 1e8, 0.3, 0.1: the running volume sum of
    ChaikinMoneyFlow(2) keeps the residue of the volume that has left the window and the quotient falls below -1. *)
Definition lowc (v : float) : candle (N := NumF64) := mkCandle (N := NumF64) 2%float 2%float 1%float 1%float v.
Theorem C12_cmf_residue_refuted :
  exists v, last_vals (cmf_init (pw := PW8) 2 (lowc 100000000)) (cmf_next (pw := PW8)) [lowc 0.3; lowc 0.1] = [v] /\
            PrimFloat.ltb v (-1)%float = true.
Proof. eexists. split; vm_compute; reflexivity. Qed.
(** KF-C12-vidya-nan: RelativeStrengthIndex averaged by Vidya(3): closes 100 | 3.3, 2.5, 0.1 and then flat.  Vidya's running
    sums are left with opposite residues, their sum is 0, the ratio infinite, and the value is NaN from then on. *)
Theorem C12_rsi_vidya_nan_refuted :
  exists v, last_vals (rsi_init (pw := PW8) (mkRsiCfg (MAcfg KVidya 3) 0.3%float SClose) (flatc 100 1)) (rsi_next (pw := PW8))
              [flatc 3.3 1; flatc 2.5 1; flatc 0.1 1; flatc 0.1 1; flatc 0.1 1; flatc 0.1 1; flatc 0.1 1; flatc 0.1 1; flatc 0.1 1] = [v] /\
            PrimFloat.is_nan v = true.
Proof. eexists. split; vm_compute; reflexivity. Qed.
(** KF-C12-tsx-residue: TrendStrengthIndex(period 2) built on a flat candle at 1e8 and fed 100, 0.7: the window {100, 0.7} has
    correlation exactly -1 with time, but the running sum of squares still carries the rounding residue of 1e8^2 and the value
    falls below -1 *)
Theorem C12_tsx_residue_refuted :
  exists v, last_vals (tsx_init (pw := PW8) 2 0.75%float 1 SClose (flatc 100000000 1)) (tsx_next (pw := PW8))
              [flatc 100 1; flatc 0.7 1] = [v] /\ PrimFloat.ltb v (-1)%float = true.
Proof. eexists. split; vm_compute; reflexivity. Qed.

(** on BINARY64 itself, with no rounding allowance: Aroon-up and Aroon-down of the model instantiated at IEEE binary64 are finite
    and lie in [0, 1] after every stream, for every accepted configuration (every PeriodType width up to 32 bits).  The age
    returned by HighestIndex / LowestIndex lies in [0, period) on any carrier; small integers convert exactly; rounding is
    monotone and 0 and 1 are floats *)
From Yata Require Import Base.NumF64 Proofs.RoundingLink Proofs.Binary64Range Proofs.Binary64Aroon.
Theorem C12_aroon_binary64_range {pw : PW} period zone ozp (c0 : candle (N := NumF64)) s0 cs c :
  aroon_init period zone ozp c0 = Ok s0 -> (pmax <= 2 ^ 53)%Z ->
  Forall (fun v => fin v /\ (0 <= val v <= 1)%R) (fst (snd (aroon_next (steps aroon_next s0 cs) c))).
Proof. exact (aroon_binary64_range period zone ozp c0 s0 cs c). Qed.
Example C12_aroon_binary64_range_witness :
  is_ok (aroon_init (pw := PW8) 14 0.3%float 7 (flatc 100 1)) = true /\ (@pmax PW8 <= 2 ^ 53)%Z.
Proof. split; [vm_compute; reflexivity|vm_compute; discriminate]. Qed.

(** RelativeStrengthIndex with an exponential average (the default kind) at IEEE binary64: finite and in [0, 1] after every stream
    of candles whose source price is finite and in [0, 2^999] - no rounding allowance.  Every operation rounds, but rounding is
    monotone and keeps floats fixed: an EMA step with 0 <= alpha <= 1/2 lies between the old value and the input, so the average
    gain stays >= 0 and the average loss <= 0; the rounded sum of two non-negative floats is at least each of them; the rounded
    quotient of 0 <= p <= s lies in [0, 1].  (The positive counterpart of KF-C12-rsi-residue, which needs a running-sum average.) *)
From Yata Require Import Proofs.Binary64Rsi.
Theorem C12_rsi_ema_binary64_range {pw : PW} (c : rsi_cfg (N := NumF64)) n (c0 : candle (N := NumF64)) s0 cs k :
  rsi_init c c0 = Ok s0 -> rc_ma c = MAcfg KEMA n -> (n < 2 ^ 52)%Z ->
  src_ok (rc_source c) c0 -> Forall (src_ok (rc_source c)) (cs ++ [k]) ->
  Forall (fun v => fin v /\ (0 <= val v <= 1)%R) (fst (snd (rsi_next (steps rsi_next s0 cs) k))).
Proof. exact (rsi_ema_binary64_range c n c0 s0 cs k). Qed.
Example C12_rsi_ema_binary64_range_witness :
  is_ok (rsi_init (pw := PW8) (mkRsiCfg (MAcfg KEMA 14) 0.3%float SClose) (flatc 100 1)) = true.
Proof. vm_compute. reflexivity. Qed.
