(** C14 — Crossing and reversal detectors are definitional. *)
From Yata Require Import Base.Prelude Base.Num Base.NumR Core.Window Core.Candle Core.Action
  Spec.Hist Methods.Basic Methods.Select Proofs.MethodsCommon Proofs.Detectors.
From Coq Require Import Reals.
Open Scope Z_scope.

Section C14.
Local Notation R := (@F NumR).

Theorem C14_cross_above (p0 : R * R) ps p :
  snd (cross_above_next (steps cross_above_next (cross_new p0) ps) p) = cross_above_def (hget p0 (rev (ps ++ [p]))).
Proof. exact (cross_above_correct p0 ps p). Qed.
Theorem C14_cross_under (p0 : R * R) ps p :
  snd (cross_under_next (steps cross_under_next (cross_new p0) ps) p) = cross_under_def (hget p0 (rev (ps ++ [p]))).
Proof. exact (cross_under_correct p0 ps p). Qed.
Theorem C14_cross_is_above_minus_under (p0 : R * R) ps p :
  snd (cross_next (steps cross_next (cross_new p0, cross_new p0) ps) p) = cross_def (hget p0 (rev (ps ++ [p]))).
Proof. exact (cross_correct p0 ps p). Qed.
Theorem C14_cross_swap_negates (h : nat -> R * R) :
  cross_def (fun i => (snd (h i), fst (h i))) = a_neg (cross_def h).
Proof. exact (cross_def_swap h). Qed.
End C14.
