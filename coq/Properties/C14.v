(** C14 — Crossing and reversal detectors are definitional. *)
From Yata Require Import Base.Prelude Base.Num Base.NumR Core.Window Core.Candle Core.Action
  Spec.Hist Spec.IndicatorDefs Methods.Basic Methods.Select Proofs.MethodsCommon Proofs.Detectors Proofs.Selection2.
From Coq Require Import Reals.
Open Scope Z_scope.

Section C14.
Local Notation R := (@F NumR).

Theorem C14_cross_above (p0 : R * R) ps p :
  snd (cross_above_next (steps cross_above_next (cross_new p0) ps) p) = cross_above_def (hget p0 (rev (ps ++ [p]))).
Proof. exact (cross_above_correct p0 ps p). Qed.
Theorem C14_cross_under (p0 : R * R) ps p :
  snd (cross_under_next (steps cross_under_next (cross_new p0) ps) p) = cross_under_def (hget p0 (rev (ps ++ [p]))).
Proof. exact (cross_under_correct p0 ps p). Qed.
Theorem C14_cross_is_above_minus_under (p0 : R * R) ps p :
  snd (cross_next (steps cross_next (cross_new p0, cross_new p0) ps) p) = cross_def (hget p0 (rev (ps ++ [p]))).
Proof. exact (cross_correct p0 ps p). Qed.
Theorem C14_cross_swap_negates (h : nat -> R * R) :
  cross_def (fun i => (snd (h i), fst (h i))) = a_neg (cross_def h).
Proof. exact (cross_def_swap h). Qed.
End C14.

(** Reversal detectors, for streams of every length (nothing in the statements depends on the position): under the
    API's convention that the first input is the construction value, the detector fires at a step exactly when the
    NEWEST extreme element of the last left+right+1 inputs is [right] steps old, i.e. (C04_index_is_newest_extreme)
    the element [right] steps back is >= (<=) every element of the window and > (<) every newer one. *)
Section C14r.
Context {pw : PW}.
Local Notation R := (@F NumR).
Theorem C14_upper_reversal lft right (v : R) xs x : 1 <= lft -> 1 <= right -> lft + right <= pmax - 2 ->
  exists s0, rev_new lft right v = Ok s0 /\
    snd (upper_rev_next (steps upper_rev_next s0 (v :: xs)) x) =
    if Nat.eqb (argbest fgt (hget v (rev ((v :: xs) ++ [x]))) (Z.to_nat (lft + right + 1))) (Z.to_nat right)
    then a_buy_all else ANone.
Proof. exact (upper_reversal_correct lft right v xs x). Qed.
Theorem C14_lower_reversal lft right (v : R) xs x : 1 <= lft -> 1 <= right -> lft + right <= pmax - 2 ->
  exists s0, rev_new lft right v = Ok s0 /\
    snd (lower_rev_next (steps lower_rev_next s0 (v :: xs)) x) =
    if Nat.eqb (argbest flt (hget v (rev ((v :: xs) ++ [x]))) (Z.to_nat (lft + right + 1))) (Z.to_nat right)
    then a_buy_all else ANone.
Proof. exact (lower_reversal_correct lft right v xs x). Qed.
Theorem C14_reversal_signal lft right (v : R) xs x : 1 <= lft -> 1 <= right -> lft + right <= pmax - 2 ->
  exists s0, reversal_new lft right v = Ok s0 /\
    snd (reversal_next (steps reversal_next s0 (v :: xs)) x) =
    let h := hget v (rev ((v :: xs) ++ [x])) in let L := Z.to_nat (lft + right + 1) in let r := Z.to_nat right in
    a_sub (if Nat.eqb (argbest flt h L) r then a_buy_all else ANone) (if Nat.eqb (argbest fgt h L) r then a_buy_all else ANone).
Proof. exact (reversal_signal_correct lft right v xs x). Qed.
Theorem C14_pivot_meaning (h : nat -> R) n j : (1 <= n)%nat ->
  (argbest fgt h n = j <-> (j < n)%nat /\ (forall i, (i < j)%nat -> (h i < h j)%R) /\ (forall i, (i < n)%nat -> (h i <= h j)%R)).
Proof. exact (upper_pivot_meaning h n j). Qed.
End C14r.
