(** C16 — Action is a consistent signed-strength algebra. *)
From Yata Require Import Base.Prelude Base.Num Base.NumF64 Core.Action Proofs.ActionProofs.
From Coq Require Import Floats.

Theorem C16_neg_involutive a : a_neg (a_neg a) = a.
Proof. exact (neg_involutive a). Qed.

Theorem C16_neg_negates_ratio a : a_r0 (a_neg a) = - a_r0 a.
Proof. exact (ratio255_neg a). Qed.

Theorem C16_ratio_range a : a_valid a -> - BOUND <= a_r0 a <= BOUND.
Proof. exact (ratio255_range a). Qed.

(** a - b : ratio(a) - ratio(b), no signal counting as zero, saturated *)
Theorem C16_sub_spec a b : a_valid a -> a_valid b ->
  a_r0 (a_sub a b) = Z.max (- BOUND) (Z.min BOUND (a_r0 a - a_r0 b)).
Proof. exact (ActionProofs.sub_spec a b). Qed.

Theorem C16_sub_valid a b : a_valid a -> a_valid b -> a_valid (a_sub a b).
Proof. exact (sub_valid a b). Qed.

Theorem C16_sub_none_iff a b : a_sub a b = ANone <-> a = ANone /\ b = ANone.
Proof. exact (sub_none_iff a b). Qed.

Theorem C16_analog_sign a : a_valid a -> a_analog a = Z.sgn (a_r0 a).
Proof. exact (analog_sign_agree a). Qed.

Theorem C16_sign a : a_sign a = match a with ANone => None | _ => Some (a_analog a) end.
Proof. exact (sign_spec a). Qed.

Theorem C16_from_i8 v : -128 <= v <= 127 ->
  a_from_i8 v = (if v =? 0 then ANone else if 0 <? v then Buy 255 else Sell 255) /\
  a_valid (a_from_i8 v) /\ a_analog (a_from_i8 v) = Z.sgn v.
Proof. exact (from_i8_spec v). Qed.

(** equality is an equivalence relation (equality of normal forms) and respects the ratio *)
Theorem C16_eq_refl a : a_valid a -> a_eq a a = true.
Proof. exact (eq_refl_a a). Qed.
Theorem C16_eq_sym a b : a_valid a -> a_valid b -> a_eq a b = true -> a_eq b a = true.
Proof. exact (eq_sym_a a b). Qed.
Theorem C16_eq_trans a b c : a_valid a -> a_valid b -> a_valid c ->
  a_eq a b = true -> a_eq b c = true -> a_eq a c = true.
Proof. exact (eq_trans_a a b c). Qed.
Theorem C16_eq_ratio a b : a_valid a -> a_valid b -> a_eq a b = true -> a_r0 a = a_r0 b.
Proof. exact (eq_ratio a b). Qed.

(** ordering consistent with equality: FULL statement
      forall a b, a_eq a b = true <-> a_cmp a b = Eq
    is false of the code (known finding KF-C16-ord); proved outside the
    zero-strength pair, refuted on it. *)
Theorem C16_ord_consistent_partial a b : a_valid a -> a_valid b -> ~ zero_pair a b ->
  (a_eq a b = true <-> a_cmp a b = Eq).
Proof. exact (ord_consistent_partial a b). Qed.
Theorem C16_ord_consistent_refuted :
  exists a b, a_valid a /\ a_valid b /\ zero_pair a b /\ a_eq a b = true /\ a_cmp a b <> Eq.
Proof. exact ord_consistent_refuted. Qed.

(** binary64: complete over the 513 actions *)
Theorem C16_from_ratio_roundtrip a : a_valid a -> roundtrip_ok a = true.
Proof. exact (from_ratio_roundtrip a). Qed.
Theorem C16_ratio_range_f64 a : a_valid a -> opt_float_le1 (a_ratio (N := NumF64) a) = true.
Proof. exact (ratio_range_f a). Qed.
Theorem C16_ratio_neg_f64 a : a_valid a -> ratio_neg_ok a = true.
Proof. exact (ratio_neg_f a). Qed.

Theorem C16_from_f64_special :
  a_from_f (N := NumF64) nan = ANone /\
  a_from_f (N := NumF64) infinity = Buy 255 /\ a_from_f (N := NumF64) neg_infinity = Sell 255 /\
  a_from_f (N := NumF64) 2%float = Buy 255 /\ a_from_f (N := NumF64) (-2)%float = Sell 255 /\
  a_from_f (N := NumF64) 0%float = Buy 0 /\ a_from_f (N := NumF64) (-0)%float = Sell 0 /\
  a_from_f (N := NumF64) 0x1p-1074%float = Buy 0 /\ a_from_f (N := NumF64) (-0x1p-1074)%float = Sell 0 /\
  a_from_f (N := NumF64) 0x1.fffffffffffffp+1023%float = Buy 255.
Proof. exact from_f_special. Qed.

(** the 255 break points are pairs of adjacent floats mapped to consecutive strengths *)
Theorem C16_breakpoints : forallb bp_ok (map Z.of_nat (seq 0 255)) = true.
Proof. exact breakpoints_adjacent. Qed.
Theorem C16_breakpoints_mirror : forallb bp_neg_ok (map Z.of_nat (seq 0 255)) = true.
Proof. exact breakpoints_mirror. Qed.

Example C16_nonvacuous : a_valid (Buy 200) /\ a_valid (Sell 100) /\
  a_sub (Buy 200) (Sell 100) = Buy 255 /\ a_sub (Sell 3) (Sell 10) = Buy 7.
Proof. unfold a_valid, BOUND. repeat split; try lia. Qed.
