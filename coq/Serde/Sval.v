(** A small self-describing value model of serde data and the structural
    codecs that #[derive(Serialize, Deserialize)] generates: a struct of
    round-tripping fields round-trips (C13).  The hand-written codecs of
    Window and SMM are modelled in Core/Window.v (w_serialize/w_deserialize)
    and below. *)
From Yata Require Import Base.Prelude Base.Num Core.Window Core.WindowSpec Methods.Basic Methods.Select.

Inductive sval :=
  | SUnit | SBool (b : bool) | SInt (z : Z) | SFloat (bits : Z) | SStr (s : string)
  | SSeq (l : list sval) | SMap (l : list (string * sval)) | SVariant (n : string) (v : sval).

Record codec (A : Type) := mkCodec {
  enc : A -> sval;
  dec : sval -> option A;
  roundtrip : forall a, dec (enc a) = Some a
}.
Arguments enc {A}. Arguments dec {A}. Arguments roundtrip {A}.

(** derive on a two-field struct { f1 : A, f2 : B } (n-ary structs nest) *)
Definition enc_pair {A B} (n1 n2 : string) (ca : codec A) (cb : codec B) (p : A * B) : sval :=
  SMap [(n1, enc ca (fst p)); (n2, enc cb (snd p))].
Definition dec_pair {A B} (n1 n2 : string) (ca : codec A) (cb : codec B) (v : sval) : option (A * B) :=
  match v with
  | SMap [(k1, v1); (k2, v2)] =>
    if String.eqb k1 n1 && String.eqb k2 n2 then
      match dec ca v1, dec cb v2 with Some a, Some b => Some (a, b) | _, _ => None end
    else None
  | _ => None
  end.
Program Definition pair_codec {A B} (n1 n2 : string) (ca : codec A) (cb : codec B) : codec (A * B) :=
  mkCodec _ (enc_pair n1 n2 ca cb) (dec_pair n1 n2 ca cb) _.
Next Obligation.
  unfold dec_pair, enc_pair. cbn [fst snd]. rewrite !String.eqb_refl. cbn [andb].
  rewrite !roundtrip. reflexivity.
Qed.

Fixpoint dec_list {A} (ca : codec A) (l : list sval) : option (list A) :=
  match l with
  | [] => Some []
  | v :: r => match dec ca v, dec_list ca r with Some a, Some t => Some (a :: t) | _, _ => None end
  end.
Program Definition list_codec {A} (ca : codec A) : codec (list A) :=
  mkCodec _ (fun l => SSeq (map (enc ca) l)) (fun v => match v with SSeq l => dec_list ca l | _ => None end) _.
Next Obligation.
  induction a as [|x r IH]; [reflexivity|]. cbn [map dec_list]. rewrite roundtrip, IH. reflexivity.
Qed.
Program Definition int_codec : codec Z := mkCodec _ SInt (fun v => match v with SInt z => Some z | _ => None end) _.

(** Window<T> : serialized as { buf, index }; deserialization validates (Core/Window.v) *)
Section WindowCodec.
Context {pw : PW} {A : Type}.
Hypothesis pmax_ge : 2 <= pmax.
Variable ca : codec A.
Definition w_enc (w : window A) : sval :=
  SMap [("buf", enc (list_codec ca) (buf w)); ("index", SInt (widx w))].
Definition w_dec (v : sval) : option (window A) :=
  match dec (pair_codec "buf" "index" (list_codec ca) int_codec) v with
  | Some (b, i) => match w_deserialize (b, i) with DOk w => Some w | _ => None end
  | None => None
  end.
Theorem window_codec_roundtrip (w : window A) : wf w -> w_dec (w_enc w) = Some w.
Proof.
  intros Hwf. unfold w_dec, w_enc.
  change (SMap [("buf", enc (list_codec ca) (buf w)); ("index", SInt (widx w))])
    with (enc (pair_codec "buf" "index" (list_codec ca) int_codec) (buf w, widx w)).
  rewrite roundtrip. change (buf w, widx w) with (w_serialize w). rewrite (deser_ser pmax_ge w Hwf). reflexivity.
Qed.
End WindowCodec.

(** SMM serializes its window only; Deserialize rebuilds the sorted buffer by
    sorting the window's buffer in the total order. *)
Section SmmCodec.
Context {pw : PW} {N : Num}.
Fixpoint tinsert (x : F) (l : list F) : list F :=
  match l with [] => [x] | y :: r => if ftotal_gt x y then y :: tinsert x r else x :: l end.
Definition tsort (l : list F) : list F := fold_right tinsert [] l.
Definition smm_restore (w : window F) : option smm :=
  if w_is_empty w then None
  else if existsb fis_nan (buf w) then None
  else let n := wsize w in
       Some (mkSMM (n / 2) (sat_sub (n / 2) (if n mod 2 =? 0 then 1 else 0)) w (tsort (buf w))).
(** when the sorted buffer is the total-order sort of the window (the method's
    invariant, exercised by the correspondence), restoring gives back the state *)
Theorem smm_restore_roundtrip (s : smm) :
  w_is_empty (smm_window s) = false -> existsb fis_nan (buf (smm_window s)) = false ->
  smm_half s = wsize (smm_window s) / 2 ->
  smm_half_m1 s = sat_sub (smm_half s) (if wsize (smm_window s) mod 2 =? 0 then 1 else 0) ->
  smm_slice s = tsort (buf (smm_window s)) ->
  smm_restore (smm_window s) = Some s.
Proof.
  intros He Hn Hh Hm Hs. unfold smm_restore. rewrite He, Hn. destruct s as [h hm w sl]. cbn in *. subst. reflexivity.
Qed.
End SmmCodec.
