(** C13 continued: end-to-end snapshot theorems for concrete method states.  Derived (struct) codecs composed with the validating
    Window codec give, for the states of SMA, WMA, TRIMA (two nested SMAs) and HMA (three nested WMAs): the snapshot of EVERY
    state reachable from an accepted constructor on any stream decodes to that very state - hence the restored instance
    continues exactly like the original (any element codec for the floats, any width). *)
From Yata Require Import Base.Prelude Base.Num Base.NumR Core.Window Core.WindowSpec Methods.Basic Serde.Sval Spec.Hist
  Proofs.MethodsCommon Proofs.Totality.
From Coq Require Import Lia.
Open Scope Z_scope.

(** a codec that round-trips on a domain (the Window codec validates its input: it round-trips well-formed windows) *)
Record pcodec (A : Type) := mkP { penc : A -> sval; pdec : sval -> option A; pdom : A -> Prop;
                                  prt : forall a, pdom a -> pdec (penc a) = Some a }.
Arguments penc {A}. Arguments pdec {A}. Arguments pdom {A}. Arguments prt {A}.

Definition of_codec {A} (c : codec A) : pcodec A := mkP A (enc c) (dec c) (fun _ => True) (fun a _ => roundtrip c a).

Definition ppair_dec {A B} (n1 n2 : string) (ca : pcodec A) (cb : pcodec B) (v : sval) : option (A * B) :=
  match v with
  | SMap [(k1, v1); (k2, v2)] =>
    if String.eqb k1 n1 && String.eqb k2 n2 then
      match pdec ca v1, pdec cb v2 with Some a, Some b => Some (a, b) | _, _ => None end
    else None
  | _ => None
  end.
Lemma ppair_rt {A B} (n1 n2 : string) (ca : pcodec A) (cb : pcodec B) (p : A * B) : pdom ca (fst p) /\ pdom cb (snd p) ->
  ppair_dec n1 n2 ca cb (SMap [(n1, penc ca (fst p)); (n2, penc cb (snd p))]) = Some p.
Proof.
  destruct p as (a, b). cbn [fst snd]. intros (Ha & Hb). unfold ppair_dec. rewrite !String.eqb_refl. cbn [andb].
  rewrite (prt ca a Ha), (prt cb b Hb). reflexivity.
Qed.
Definition ppair {A B} (n1 n2 : string) (ca : pcodec A) (cb : pcodec B) : pcodec (A * B) :=
  mkP _ (fun p => SMap [(n1, penc ca (fst p)); (n2, penc cb (snd p))]) (ppair_dec n1 n2 ca cb)
      (fun p => pdom ca (fst p) /\ pdom cb (snd p)) (ppair_rt n1 n2 ca cb).

(** a record presented through an isomorphic tuple (what #[derive] does field by field) *)
Lemma pmapc_rt {A B} (f : B -> A) (g : A -> B) (Hgf : forall b, g (f b) = b) (c : pcodec A) (b : B) : pdom c (f b) ->
  option_map g (pdec c (penc c (f b))) = Some b.
Proof. intros H. rewrite (prt c (f b) H). cbn. rewrite Hgf. reflexivity. Qed.
Definition pmapc {A B} (f : B -> A) (g : A -> B) (Hgf : forall b, g (f b) = b) (c : pcodec A) : pcodec B :=
  mkP _ (fun b => penc c (f b)) (fun v => option_map g (pdec c v)) (fun b => pdom c (f b)) (pmapc_rt f g Hgf c).

Section Snap.
Context {pw : PW} {N : Num}.
Hypothesis pmax_ge : 2 <= pmax.
Variable cf : codec F.          (* any round-tripping encoding of the floats *)

Definition window_pcodec : pcodec (window F) := mkP _ (w_enc cf) (w_dec cf) wf (window_codec_roundtrip pmax_ge cf).

Definition sma_pcodec : pcodec sma :=
  pmapc (fun s => (sma_divider s, (sma_value s, sma_window s))) (fun t => mkSMA (fst t) (fst (snd t)) (snd (snd t)))
        (fun s => match s with mkSMA _ _ _ => eq_refl end)
        (ppair "divider" "rest" (of_codec cf) (ppair "value" "window" (of_codec cf) window_pcodec)).
Definition wma_pcodec : pcodec wma :=
  pmapc (fun s => (wma_invert_sum s, (wma_float_length s, (wma_total s, (wma_numerator s, wma_window s)))))
        (fun t => mkWMA (fst t) (fst (snd t)) (fst (snd (snd t))) (fst (snd (snd (snd t)))) (snd (snd (snd (snd t)))))
        (fun s => match s with mkWMA _ _ _ _ _ => eq_refl end)
        (ppair "invert_sum" "r1" (of_codec cf) (ppair "float_length" "r2" (of_codec cf) (ppair "total" "r3" (of_codec cf)
           (ppair "numerator" "window" (of_codec cf) window_pcodec)))).
Definition trima_pcodec : pcodec trima :=
  pmapc (fun s => (tr_sma1 s, tr_sma2 s)) (fun t => mkTRIMA (fst t) (snd t)) (fun s => match s with mkTRIMA _ _ => eq_refl end)
        (ppair "sma1" "sma2" sma_pcodec sma_pcodec).
Definition hma_pcodec : pcodec hma :=
  pmapc (fun s => (hma_w1 s, (hma_w2 s, hma_w3 s))) (fun t => mkHMA (fst t) (fst (snd t)) (snd (snd t)))
        (fun s => match s with mkHMA _ _ _ => eq_refl end)
        (ppair "wma1" "r" wma_pcodec (ppair "wma2" "wma3" wma_pcodec wma_pcodec)).

(** the domains are exactly "every embedded window is well formed" *)
Lemma sma_dom s : pdom sma_pcodec s <-> wf (sma_window s).
Proof. cbn. tauto. Qed.
Lemma wma_dom s : pdom wma_pcodec s <-> wf (wma_window s).
Proof. cbn. tauto. Qed.
Lemma trima_dom s : pdom trima_pcodec s <-> wf (sma_window (tr_sma1 s)) /\ wf (sma_window (tr_sma2 s)).
Proof. cbn. tauto. Qed.
Lemma hma_dom s : pdom hma_pcodec s <-> wf (wma_window (hma_w1 s)) /\ wf (wma_window (hma_w2 s)) /\ wf (wma_window (hma_w3 s)).
Proof. cbn. tauto. Qed.

(** pushing keeps a window well formed and of the same positive size; a fresh window of an accepted length is such a window *)
Definition wgood (w : window F) : Prop := wf w /\ 0 < wsize w.
Lemma wgood_push (w : window F) x : wgood w -> wgood (fst (w_push_t w x)).
Proof.
  intros (Hw & Hs). destruct (push_spec w x Hw Hs) as (w' & old & Hp & Hwf' & Hsz & _). unfold w_push_t. rewrite Hp. cbn [fst]. split; [exact Hwf'|lia].
Qed.
Lemma wgood_new n (v : F) : 1 <= n <= pmax - 1 -> wgood (w_new_t n v).
Proof.
  intros Hn. assert (Hn' : 0 <= n <= pmax - 1) by lia. destruct (new_spec n v Hn') as (w & Hnew & Hwf & _ & Hsz). unfold w_new_t. rewrite Hnew. split; [exact Hwf|lia].
Qed.
(** a window field that every step pushes something into stays good along any stream *)
Lemma steps_wgood {S} (next : S -> F -> S * F) (fld : S -> window F) :
  (forall s x, exists y, fld (fst (next s x)) = fst (w_push_t (fld s) y)) ->
  forall xs s, wgood (fld s) -> wgood (fld (steps next s xs)).
Proof.
  intros H xs. induction xs as [|x r IH]; intros s Hg; [exact Hg|]. unfold steps in *. cbn [fold_left]. apply IH.
  destruct (H s x) as (y & E). rewrite E. apply wgood_push, Hg.
Qed.

Lemma bad_len_false' n : 1 <= n <= pmax - 1 -> bad_len n = false.
Proof. intros Hn. unfold bad_len. destruct (Z.eqb_spec n 0); [lia|]. destruct (Z.eqb_spec n pmax); [lia|]. reflexivity. Qed.

(** ---- SMA: the snapshot of every reachable state decodes to that state *)
Theorem sma_snapshot_roundtrip n (v : F) xs : 1 <= n <= pmax - 1 ->
  exists s0, sma_new n v = Ok s0 /\
    let s := steps sma_next s0 xs in pdec sma_pcodec (penc sma_pcodec s) = Some s.
Proof.
  intros Hn. unfold sma_new. rewrite (bad_len_false' n Hn). eexists. split; [reflexivity|]. cbv zeta.
  apply (prt sma_pcodec). apply sma_dom.
  apply (steps_wgood sma_next sma_window); [|apply wgood_new; exact Hn].
  intros s x. exists x. unfold sma_next. destruct (w_push_t (sma_window s) x). reflexivity.
Qed.

(** ---- WMA *)
Theorem wma_snapshot_roundtrip n (v : F) xs : 1 <= n <= pmax - 1 ->
  exists s0, wma_new n v = Ok s0 /\
    let s := steps wma_next s0 xs in pdec wma_pcodec (penc wma_pcodec s) = Some s.
Proof.
  intros Hn. unfold wma_new. rewrite (bad_len_false' n Hn). eexists. split; [reflexivity|]. cbv zeta.
  apply (prt wma_pcodec). apply wma_dom.
  apply (steps_wgood wma_next wma_window); [|apply wgood_new; exact Hn].
  intros s x. exists x. unfold wma_next. destruct (w_push_t (wma_window s) x). reflexivity.
Qed.

(** ---- TRIMA: two nested SMAs, the second fed the output of the first *)
Theorem trima_snapshot_roundtrip n (v : F) xs : 1 <= n <= pmax - 1 ->
  exists s0, trima_new n v = Ok s0 /\
    let s := steps trima_next s0 xs in pdec trima_pcodec (penc trima_pcodec s) = Some s.
Proof.
  intros Hn. unfold trima_new, sma_new. rewrite (bad_len_false' n Hn). cbn [obind]. eexists. split; [reflexivity|]. cbv zeta.
  apply (prt trima_pcodec). apply trima_dom. split.
  - apply (steps_wgood trima_next (fun s => sma_window (tr_sma1 s))); [|apply wgood_new; exact Hn].
    intros s x. exists x. unfold trima_next, sma_next. destruct (w_push_t (sma_window (tr_sma1 s)) x). cbn. destruct (w_push_t (sma_window (tr_sma2 s)) _). reflexivity.
  - apply (steps_wgood trima_next (fun s => sma_window (tr_sma2 s))); [|apply wgood_new; exact Hn].
    intros s x. unfold trima_next, sma_next. destruct (w_push_t (sma_window (tr_sma1 s)) x) as (w1, p1). cbn.
    eexists. destruct (w_push_t (sma_window (tr_sma2 s)) _) as (w2, p2) eqn:E. cbn. rewrite E. reflexivity.
Qed.
End Snap.
