//! `glue <Method> <variant> <n> <x0> <k> <xs..> [extra]` : API glue around scalar methods (C09, C13).
//! The transcript is: ctor outcome, then the PLAIN next-loop outputs (k values), then the
//! outputs produced through the variant (k values unless stated).  A driver compares the halves.
use crate::common::*;
use crate::vtree;
use serde::{de::DeserializeOwned, Serialize};
use yata::core::{Method, PeriodType, Sequence, ValueType};
use yata::helpers::Peekable;
use yata::methods::*;

fn vb(x: ValueType) -> i128 {
	fbits(x as f64)
}

fn drive<M>(t: &mut Toks, variant: &str, peek: Option<fn(&M) -> ValueType>) -> Vec<i128>
where
	M: Method<Params = PeriodType, Input = ValueType, Output = ValueType> + Clone + Serialize + DeserializeOwned + 'static,
{
	let n = t.next_i();
	let x0 = t.next_f64() as ValueType;
	let xs: Vec<ValueType> = t.next_list_f64().into_iter().map(|x| x as ValueType).collect();
	let n = match PeriodType::try_from(n) {
		Ok(n) => n,
		Err(_) => return vec![T_ERR],
	};
	let mut out = Vec::new();
	let mut plain = match catch(|| M::new(n, &x0)) {
		None => return vec![T_PANIC],
		Some(Err(_)) => return vec![T_ERR],
		Some(Ok(m)) => m,
	};
	out.push(0);
	let base: Vec<ValueType> = xs.iter().map(|x| plain.next(x)).collect();
	out.extend(base.iter().map(|x| vb(*x)));
	let r = catch(|| -> Vec<i128> {
		let mut o = Vec::new();
		match variant {
			"over" => {
				let mut m = M::new(n, &x0).unwrap();
				o.extend(m.over(&xs).into_iter().map(vb));
			}
			"call" => {
				let mut m = M::new(n, &x0).unwrap();
				o.extend(xs.call(&mut m).into_iter().map(vb));
			}
			"apply" => {
				let mut m = M::new(n, &x0).unwrap();
				let mut v = xs.clone();
				m.apply(&mut v);
				o.extend(v.into_iter().map(vb));
			}
			"seqapply" => {
				let mut m = M::new(n, &x0).unwrap();
				let mut v = xs.clone();
				Sequence::apply(&mut v, &mut m);
				o.extend(v.into_iter().map(vb));
			}
			"new_over" => {
				// initial value is the first element of the sequence: compare with a plain loop seeded the same way
				let mut p2 = M::new(n, &xs[0]).unwrap();
				o.extend(xs.iter().map(|x| vb(p2.next(x))));
				o.push(-77);
				o.extend(M::new_over(n, &xs).unwrap().into_iter().map(vb));
				let empty: Vec<ValueType> = Vec::new();
				o.push(M::new_over(n, &empty).unwrap().len() as i128);
			}
			"new_apply" => {
				let mut p2 = M::new(n, &xs[0]).unwrap();
				o.extend(xs.iter().map(|x| vb(p2.next(x))));
				o.push(-77);
				let mut v = xs.clone();
				M::new_apply(n, &mut v).unwrap();
				o.extend(v.into_iter().map(vb));
				let mut empty: Vec<ValueType> = Vec::new();
				M::new_apply(n, &mut empty).unwrap();
				o.push(empty.len() as i128);
			}
			"into_fn" => {
				let m = M::new(n, &x0).unwrap();
				let xl: &'static [ValueType] = Box::leak(xs.clone().into_boxed_slice());
				let mut f = m.into_fn();
				o.extend(xl.iter().map(|x| vb(f(x))));
			}
			"new_fn" => {
				let xl: &'static [ValueType] = Box::leak(xs.clone().into_boxed_slice());
				let x0l: &'static ValueType = Box::leak(Box::new(x0));
				let mut f = M::new_fn(n, x0l).unwrap();
				o.extend(xl.iter().map(|x| vb(f(x))));
			}
			"chunk" => {
				let sizes: Vec<usize> = (0..t.next_usize()).map(|_| t.next_usize()).collect();
				let mut m = M::new(n, &x0).unwrap();
				let mut pos = 0;
				for s in sizes {
					let e = (pos + s).min(xs.len());
					o.extend(m.over(&xs[pos..e]).into_iter().map(vb));
					pos = e;
				}
				o.extend(m.over(&xs[pos..]).into_iter().map(vb));
			}
			"history" => {
				let mut m = M::with_history(n, &x0).unwrap();
				for x in &xs {
					o.push(vb(m.next(x)));
				}
				// the recorded history read back: get(i) is the output i steps ago
				o.push(-77);
				for i in 0..xs.len() + 1 {
					o.push(match m.get(i) {
						Some(v) => vb(v),
						None => T_NONE,
					});
				}
			}
			"last_value" => {
				// WithLastValue::new feeds the initial value once: the reference is a plain instance fed x0 first
				let mut p2 = M::new(n, &x0).unwrap();
				let first = p2.next(&x0);
				let mut m = M::with_last_value(n, &x0).unwrap();
				o.push(vb(first));
				o.push(vb(m.peek()));
				for x in &xs {
					let a = p2.next(x);
					let b = m.next(x);
					o.push(vb(a));
					o.push(vb(b));
					o.push(vb(m.peek()));
				}
			}
			"clone" => {
				let at = t.next_usize().min(xs.len());
				let mut m = M::new(n, &x0).unwrap();
				for x in &xs[..at] {
					o.push(vb(m.next(x)));
				}
				let mut c = m.clone();
				for x in xs[at..].iter().rev() {
					let _ = m.next(&(x * 3.0 + 1.0));
				}
				for x in &xs[at..] {
					o.push(vb(c.next(x)));
				}
			}
			"twice" => {
				// two identically built instances fed identical input
				let mut a = M::new(n, &x0).unwrap();
				let mut b = M::new(n, &x0).unwrap();
				for x in &xs {
					let (ya, yb) = (a.next(x), b.next(x));
					o.push(if vb(ya) == vb(yb) { vb(ya) } else { T_MISMATCH });
				}
			}
			"peek" => {
				let pk = peek.expect("method is not Peekable");
				let mut m = M::new(n, &x0).unwrap();
				for x in &xs {
					let y = m.next(x);
					let p = pk(&m);
					o.push(if vb(y) == vb(p) || (y == 0.0 && p == 0.0) { vb(y) } else { T_MISMATCH });
					let p2 = pk(&m); // peek does not change state
					if vb(p2) != vb(p) {
						o.push(T_MISMATCH);
					}
				}
			}
			"serde" => {
				let at = t.next_usize().min(xs.len());
				let mut m = M::new(n, &x0).unwrap();
				for x in &xs[..at] {
					o.push(vb(m.next(x)));
				}
				let snap = vtree::to_value(&m).unwrap();
				let mut r: M = match vtree::from_value(snap.clone()) {
					Ok(r) => r,
					Err(_) => {
						o.push(T_ERR);
						return o;
					}
				};
				// keep feeding the original something else: the restored instance must not care
				for x in &xs[at..] {
					o.push(vb(r.next(x)));
				}
				o.push(-77);
				o.push((vtree::to_value(&{
					let mut m2 = M::new(n, &x0).unwrap();
					xs[..at].iter().for_each(|x| {
						m2.next(x);
					});
					m2
				})
				.ok() == Some(snap)) as i128);
			}
			"serde_each" => {
				// at EVERY step: snapshot, restore, and let the restored instance and a clone of the original
				// run ahead on the next inputs; one flag per step (1 = bit-identical look-ahead)
				let look = t.next_usize();
				let mut m = M::new(n, &x0).unwrap();
				for i in 0..xs.len() {
					let snap = vtree::to_value(&m).unwrap();
					let flag = match vtree::from_value::<M>(snap.clone()) {
						Err(_) => T_ERR,
						Ok(mut r) => {
							let mut c = m.clone();
							let mut ok = vtree::to_value(&r).ok() == Some(snap);
							for x in xs[i..].iter().take(look) {
								ok &= vb(r.next(x)) == vb(c.next(x));
							}
							ok as i128
						}
					};
					o.push(flag);
					o.push(vb(m.next(&xs[i])));
				}
			}
			other => panic!("unknown glue variant {other}"),
		}
		o
	});
	match r {
		Some(o) => out.extend(o),
		None => out.push(T_PANIC),
	}
	out
}

macro_rules! pk {
	($ty:ty) => {
		Some((|m: &$ty| m.peek()) as fn(&$ty) -> ValueType)
	};
}

pub fn run(t: &mut Toks) -> Vec<i128> {
	let name = t.next_str().to_string();
	let variant = t.next_str().to_string();
	let v = variant.as_str();
	match name.as_str() {
		"SMA" => drive::<SMA>(t, v, pk!(SMA)),
		"WMA" => drive::<WMA>(t, v, pk!(WMA)),
		"EMA" => drive::<EMA>(t, v, pk!(EMA)),
		"DMA" => drive::<DMA>(t, v, pk!(DMA)),
		"TMA" => drive::<TMA>(t, v, pk!(TMA)),
		"DEMA" => drive::<DEMA>(t, v, pk!(DEMA)),
		"TEMA" => drive::<TEMA>(t, v, pk!(TEMA)),
		"RMA" => drive::<RMA>(t, v, pk!(RMA)),
		"WSMA" => drive::<WSMA>(t, v, pk!(WSMA)),
		"SWMA" => drive::<SWMA>(t, v, pk!(SWMA)),
		"TRIMA" => drive::<TRIMA>(t, v, pk!(TRIMA)),
		"HMA" => drive::<HMA>(t, v, pk!(HMA)),
		"LinReg" => drive::<LinReg>(t, v, pk!(LinReg)),
		"SMM" => drive::<SMM>(t, v, pk!(SMM)),
		"Vidya" => drive::<Vidya>(t, v, pk!(Vidya)),
		"Integral" => drive::<Integral>(t, v, pk!(Integral)),
		"StDev" => drive::<StDev>(t, v, pk!(StDev)),
		"MeanAbsDev" => drive::<MeanAbsDev>(t, v, pk!(MeanAbsDev)),
		"MedianAbsDev" => drive::<MedianAbsDev>(t, v, pk!(MedianAbsDev)),
		"LinearVolatility" => drive::<LinearVolatility>(t, v, pk!(LinearVolatility)),
		"Highest" => drive::<Highest>(t, v, pk!(Highest)),
		"Lowest" => drive::<Lowest>(t, v, pk!(Lowest)),
		"HighestLowestDelta" => drive::<HighestLowestDelta>(t, v, pk!(HighestLowestDelta)),
		"Past" => drive::<Past<ValueType>>(t, v, pk!(Past<ValueType>)),
		"Derivative" => drive::<Derivative>(t, v, None),
		"Momentum" => drive::<Momentum>(t, v, None),
		"RateOfChange" => drive::<RateOfChange>(t, v, None),
		"CCI" => drive::<CCI>(t, v, None),
		other => panic!("unknown method {other}"),
	}
}
