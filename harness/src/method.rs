//! `method <Name> <params..> <x0> <k> <x1..xk>` : constructor outcome, then one output per step.
use crate::action::enc as enc_action;
use crate::common::*;
use yata::core::{Action, Candle, Method, PeriodType, ValueType};
use yata::helpers::Peekable;
use yata::methods::*;

fn vbits(x: ValueType) -> i128 {
	fbits(x as f64)
}

fn pt(i: i128) -> Option<PeriodType> {
	PeriodType::try_from(i).ok()
}

/// outputs per step: out (and, when `peek`, the value of peek() after the step)
fn drive<M, I: Clone, O>(
	ctor: impl FnOnce() -> Result<M, yata::core::Error>,
	xs: &[I],
	mut next: impl FnMut(&mut M, &I) -> O,
	mut enc: impl FnMut(&O, &mut Vec<i128>),
	mut peek: Option<Box<dyn FnMut(&M, &mut Vec<i128>)>>,
) -> Vec<i128> {
	let mut out = Vec::new();
	let m = match catch(ctor) {
		None => return vec![T_PANIC],
		Some(Err(_)) => return vec![T_ERR],
		Some(Ok(m)) => m,
	};
	let mut m = m;
	out.push(0);
	for x in xs {
		match catch(|| next(&mut m, x)) {
			Some(o) => enc(&o, &mut out),
			None => {
				out.push(T_PANIC);
				break;
			}
		}
		if let Some(p) = peek.as_mut() {
			if catch(|| p(&m, &mut out)).is_none() {
				out.push(T_PANIC);
				break;
			}
		}
	}
	out
}

macro_rules! scalar {
	($ty:ty, $t:expr, $peek:expr) => {{
		let n = $t.next_i();
		let x0 = $t.next_f64() as ValueType;
		let xs: Vec<ValueType> = $t.next_list_f64().into_iter().map(|x| x as ValueType).collect();
		match pt(n) {
			None => vec![T_ERR],
			Some(n) => drive(
				|| <$ty>::new(n, &x0),
				&xs,
				|m: &mut $ty, x| m.next(x),
				|o, out| out.push(vbits(*o)),
				if $peek {
					Some(Box::new(|m: &$ty, out: &mut Vec<i128>| out.push(vbits(m.peek()))))
				} else {
					None
				},
			),
		}
	}};
}
macro_rules! scalar_nopeek {
	($ty:ty, $t:expr) => {{
		let n = $t.next_i();
		let x0 = $t.next_f64() as ValueType;
		let xs: Vec<ValueType> = $t.next_list_f64().into_iter().map(|x| x as ValueType).collect();
		match pt(n) {
			None => vec![T_ERR],
			Some(n) => drive(
				|| <$ty>::new(n, &x0),
				&xs,
				|m: &mut $ty, x| m.next(x),
				|o, out| out.push(vbits(*o)),
				None,
			),
		}
	}};
}

pub fn next_candle(t: &mut Toks) -> Candle {
	Candle {
		open: t.next_f64() as ValueType,
		high: t.next_f64() as ValueType,
		low: t.next_f64() as ValueType,
		close: t.next_f64() as ValueType,
		volume: t.next_f64() as ValueType,
	}
}
pub fn next_candles(t: &mut Toks) -> Vec<Candle> {
	let k = t.next_usize();
	(0..k).map(|_| next_candle(t)).collect()
}
pub fn enc_candle(c: &Candle, out: &mut Vec<i128>) {
	out.extend([vbits(c.open), vbits(c.high), vbits(c.low), vbits(c.close), vbits(c.volume)]);
}

pub fn run(t: &mut Toks) -> Vec<i128> {
	let name = t.next_str().to_string();
	let peek = if t.peek() == Some("peek") {
		t.next_str();
		true
	} else {
		false
	};
	match name.as_str() {
		"SMA" => scalar!(SMA, t, peek),
		"WMA" => scalar!(WMA, t, peek),
		"EMA" => scalar!(EMA, t, peek),
		"DMA" => scalar!(DMA, t, peek),
		"TMA" => scalar!(TMA, t, peek),
		"DEMA" => scalar!(DEMA, t, peek),
		"TEMA" => scalar!(TEMA, t, peek),
		"RMA" => scalar!(RMA, t, peek),
		"WSMA" => scalar!(WSMA, t, peek),
		"SWMA" => scalar!(SWMA, t, peek),
		"TRIMA" => scalar!(TRIMA, t, peek),
		"HMA" => scalar!(HMA, t, peek),
		"LinReg" => scalar!(LinReg, t, peek),
		"SMM" => scalar!(SMM, t, peek),
		"Vidya" => scalar!(Vidya, t, peek),
		"Integral" => scalar!(Integral, t, peek),
		"StDev" => scalar!(StDev, t, peek),
		"MeanAbsDev" => scalar!(MeanAbsDev, t, peek),
		"MedianAbsDev" => scalar!(MedianAbsDev, t, peek),
		"LinearVolatility" => scalar!(LinearVolatility, t, peek),
		"Highest" => scalar!(Highest, t, peek),
		"Lowest" => scalar!(Lowest, t, peek),
		"HighestLowestDelta" => scalar!(HighestLowestDelta, t, peek),
		"Derivative" => scalar_nopeek!(Derivative, t),
		"Momentum" => scalar_nopeek!(Momentum, t),
		"RateOfChange" => scalar_nopeek!(RateOfChange, t),
		"CCI" => scalar_nopeek!(CCI, t),
		"Past" => {
			let n = t.next_i();
			let x0 = t.next_f64() as ValueType;
			let xs: Vec<ValueType> = t.next_list_f64().into_iter().map(|x| x as ValueType).collect();
			match pt(n) {
				None => vec![T_ERR],
				Some(n) => drive(
					|| Past::<ValueType>::new(n, &x0),
					&xs,
					|m, x| m.next(x),
					|o, out| out.push(vbits(*o)),
					if peek {
						Some(Box::new(|m: &Past<ValueType>, out: &mut Vec<i128>| out.push(vbits(m.peek()))))
					} else {
						None
					},
				),
			}
		}
		"HighestIndex" | "LowestIndex" => {
			let n = t.next_i();
			let x0 = t.next_f64() as ValueType;
			let xs: Vec<ValueType> = t.next_list_f64().into_iter().map(|x| x as ValueType).collect();
			match pt(n) {
				None => vec![T_ERR],
				Some(n) => {
					if name == "HighestIndex" {
						drive(
							|| HighestIndex::new(n, &x0),
							&xs,
							|m, x| m.next(x),
							|o, out| out.push(*o as i128),
							None,
						)
					} else {
						drive(
							|| LowestIndex::new(n, &x0),
							&xs,
							|m, x| m.next(x),
							|o, out| out.push(*o as i128),
							None,
						)
					}
				}
			}
		}
		"TSI" => {
			let s = t.next_i();
			let l = t.next_i();
			let x0 = t.next_f64() as ValueType;
			let xs: Vec<ValueType> = t.next_list_f64().into_iter().map(|x| x as ValueType).collect();
			match (pt(s), pt(l)) {
				(Some(s), Some(l)) => drive(
					|| <TSI as Method>::new((s, l), &x0),
					&xs,
					|m: &mut TSI, x| m.next(x),
					|o, out| out.push(vbits(*o)),
					if peek {
						Some(Box::new(|m: &TSI, out: &mut Vec<i128>| out.push(vbits(m.peek()))))
					} else {
						None
					},
				),
				_ => vec![T_ERR],
			}
		}
		"Conv" => {
			let w: Vec<ValueType> = t.next_list_f64().into_iter().map(|x| x as ValueType).collect();
			let x0 = t.next_f64() as ValueType;
			let xs: Vec<ValueType> = t.next_list_f64().into_iter().map(|x| x as ValueType).collect();
			drive(
				|| Conv::new(w, &x0),
				&xs,
				|m, x| m.next(x),
				|o, out| out.push(vbits(*o)),
				if peek {
					Some(Box::new(|m: &Conv, out: &mut Vec<i128>| out.push(vbits(m.peek()))))
				} else {
					None
				},
			)
		}
		"VWMA" => {
			let n = t.next_i();
			let x0 = (t.next_f64() as ValueType, t.next_f64() as ValueType);
			let k = t.next_usize();
			let xs: Vec<(ValueType, ValueType)> =
				(0..k).map(|_| (t.next_f64() as ValueType, t.next_f64() as ValueType)).collect();
			match pt(n) {
				None => vec![T_ERR],
				Some(n) => drive(
					|| VWMA::new(n, &x0),
					&xs,
					|m, x| m.next(x),
					|o, out| out.push(vbits(*o)),
					if peek {
						Some(Box::new(|m: &VWMA, out: &mut Vec<i128>| out.push(vbits(m.peek()))))
					} else {
						None
					},
				),
			}
		}
		"Cross" | "CrossAbove" | "CrossUnder" => {
			let x0 = (t.next_f64() as ValueType, t.next_f64() as ValueType);
			let k = t.next_usize();
			let xs: Vec<(ValueType, ValueType)> =
				(0..k).map(|_| (t.next_f64() as ValueType, t.next_f64() as ValueType)).collect();
			let e = |o: &Action, out: &mut Vec<i128>| out.push(enc_action(*o));
			match name.as_str() {
				"Cross" => drive(|| Cross::new((), &x0), &xs, |m, x| m.next(x), e, None),
				"CrossAbove" => drive(|| CrossAbove::new((), &x0), &xs, |m, x| m.next(x), e, None),
				_ => drive(|| CrossUnder::new((), &x0), &xs, |m, x| m.next(x), e, None),
			}
		}
		"CrossDefault" => {
			// Cross::default() (last_delta = 0), as the indicators use it
			let k = t.next_usize();
			let xs: Vec<(ValueType, ValueType)> =
				(0..k).map(|_| (t.next_f64() as ValueType, t.next_f64() as ValueType)).collect();
			drive(
				|| Ok(Cross::default()),
				&xs,
				|m, x| m.next(x),
				|o: &Action, out| out.push(enc_action(*o)),
				None,
			)
		}
		"ReversalSignal" | "UpperReversalSignal" | "LowerReversalSignal" => {
			let l = t.next_i();
			let r = t.next_i();
			let x0 = t.next_f64() as ValueType;
			let xs: Vec<ValueType> = t.next_list_f64().into_iter().map(|x| x as ValueType).collect();
			let e = |o: &Action, out: &mut Vec<i128>| out.push(enc_action(*o));
			match (pt(l), pt(r)) {
				(Some(l), Some(r)) => match name.as_str() {
					"ReversalSignal" => drive(|| <ReversalSignal as Method>::new((l, r), &x0), &xs, |m: &mut ReversalSignal, x| m.next(x), e, None),
					"UpperReversalSignal" => {
						drive(|| <UpperReversalSignal as Method>::new((l, r), &x0), &xs, |m: &mut UpperReversalSignal, x| m.next(x), e, None)
					}
					_ => drive(|| <LowerReversalSignal as Method>::new((l, r), &x0), &xs, |m: &mut LowerReversalSignal, x| m.next(x), e, None),
				},
				_ => vec![T_ERR],
			}
		}
		"ADI" => {
			let n = t.next_i();
			let c0 = next_candle(t);
			let cs = next_candles(t);
			match pt(n) {
				None => vec![T_ERR],
				Some(n) => drive(
					|| ADI::new(n, &c0),
					&cs,
					|m, c| m.next(c),
					|o, out| out.push(vbits(*o)),
					if peek {
						Some(Box::new(|m: &ADI, out: &mut Vec<i128>| out.push(vbits(m.peek()))))
					} else {
						None
					},
				),
			}
		}
		"TR" => {
			let c0 = next_candle(t);
			let cs = next_candles(t);
			drive(|| TR::new(&c0), &cs, |m, c| m.next(c), |o, out| out.push(vbits(*o)), None)
		}
		"HeikinAshi" => {
			let c0 = next_candle(t);
			let cs = next_candles(t);
			drive(|| HeikinAshi::new((), &c0), &cs, |m, c| m.next(c), |o, out| enc_candle(o, out), None)
		}
		other => panic!("unknown method {other}"),
	}
}
