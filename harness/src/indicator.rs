//! `indicator <Name> <variant> <nset> (<key> <value>)* <c0> <k> <candles> [<extra>]`
//! Generic driver over all indicators of the crate (configured through `set`, as a user would).
//! Output: set results (0 ok / 1 err each), validate, size0, size1, name-hash, init outcome
//! (0 / T_ERR / T_PANIC), then per step: nvalues, values.., nsignals, signals..
use crate::action::enc as enc_action;
use crate::common::*;
use crate::method::{next_candle, next_candles};
use crate::vtree;
use serde::{de::DeserializeOwned, Serialize};
use yata::core::{Candle, IndicatorConfig, IndicatorConfigDyn, IndicatorInstance, IndicatorResult, ValueType};
use yata::indicators::*;

fn name_hash(s: &str) -> i128 {
	s.bytes().fold(7i128, |a, b| (a * 131 + b as i128) % 1_000_000_007)
}

fn push_result(r: &IndicatorResult, out: &mut Vec<i128>) {
	let v = r.values();
	out.push(v.len() as i128);
	for x in v {
		out.push(fbits(*x as f64));
	}
	let s = r.signals();
	out.push(s.len() as i128);
	for a in s {
		out.push(enc_action(*a));
	}
	// the declared lengths as well (values_length / signals_length)
	out.push(r.values_length() as i128);
	out.push(r.signals_length() as i128);
}

/// C07: `indicator <Name> soak <nset> (<key> <value>)* <seed> <P> <base> <steps> <W> <nsamples> <t..>` (see soak.rs)
fn soak<C>(t: &mut Toks, sets: &[(String, String)]) -> Vec<i128>
where
	C: IndicatorConfig + Default + 'static,
	C::Instance: Clone + 'static,
{
	use crate::soak::{chk_step, plan, Gen};
	let pl = plan(t);
	let mut cfg = C::default();
	for (k, v) in sets {
		if cfg.set(k, v.clone()).is_err() {
			return vec![T_ERR];
		}
	}
	let mut g = Gen::new(pl.seed, pl.p, pl.base);
	let x0 = g.x as ValueType;
	let c0 = Candle { open: x0, high: x0, low: x0, close: x0, volume: 1.0 };
	let mut inst = match catch(|| cfg.clone().init(&c0)) {
		None => return vec![T_PANIC],
		Some(Err(_)) => return vec![T_ERR],
		Some(Ok(i)) => i,
	};
	let enc = |r: &IndicatorResult, out: &mut Vec<i128>| {
		out.push(r.values().len() as i128);
		out.extend(r.values().iter().map(|x| fbits(*x as f64)));
		out.push(r.signals().len() as i128);
		out.extend(r.signals().iter().map(|a| enc_action(*a)));
	};
	let mut out = vec![0];
	let mut block2 = Vec::new();
	let (mut ci, mut co) = (0.0f64, 0.0f64);
	let mut ring: std::collections::VecDeque<Candle> = std::collections::VecDeque::with_capacity(pl.w + 1);
	let mut si = 0usize;
	for n in 1..=pl.steps {
		let c = g.next_candle();
		if ring.len() == pl.w {
			ring.pop_front();
		}
		ring.push_back(c);
		let r = match catch(|| inst.next(&c)) {
			Some(r) => r,
			None => {
				out.push(T_PANIC);
				return out;
			}
		};
		ci = chk_step(ci, c.close as f64);
		for v in r.values() {
			co = chk_step(co, *v as f64);
		}
		if si < pl.samples.len() && pl.samples[si] == n {
			si += 1;
			out.push(n as i128);
			out.push(fbits(c.close as f64));
			enc(&r, &mut out);
			block2.push(n as i128);
			block2.push(ring.len() as i128);
			for k in ring.iter() {
				crate::method::enc_candle(k, &mut block2);
			}
			let fresh = catch(|| {
				let mut f = cfg.clone().init(&ring[0]).unwrap();
				let mut last = None;
				for k in ring.iter().skip(1) {
					last = Some(f.next(k));
				}
				last
			});
			match fresh {
				Some(Some(fr)) => enc(&fr, &mut block2),
				Some(None) => block2.push(T_NONE),
				None => block2.push(T_PANIC),
			}
		}
	}
	out.push(fbits(ci));
	out.push(fbits(co));
	out.push(-77);
	out.extend(block2);
	out
}

fn drive<C>(t: &mut Toks, variant: &str) -> Vec<i128>
where
	C: IndicatorConfig + Default + Serialize + DeserializeOwned + 'static,
	C::Instance: Clone + Serialize + DeserializeOwned + 'static,
{
	let mut out = Vec::new();
	let nset = t.next_usize();
	let sets: Vec<(String, String)> = (0..nset)
		.map(|_| {
			let dec = |x: &str| x.replace("\\s", " ").replace("\\t", "\t").replace("\\n", "\n").replace("\\e", "");
			(dec(t.next_str()), dec(t.next_str()))
		})
		.collect();
	if variant == "soak" {
		return soak::<C>(t, &sets);
	}
	let c0 = next_candle(t);
	let cs = next_candles(t);
	let mut cfg = C::default();
	let mut dcfg: Box<dyn IndicatorConfigDyn<Candle>> = Box::new(C::default());
	let use_dyn = variant == "dyn";
	for (k, v) in &sets {
		let before = vtree::to_value(&cfg).ok();
		let r = if use_dyn {
			match catch(|| dcfg.set(k, v.clone())) {
				Some(r) => {
					// keep the static copy in step for the later comparison of the stored parameters
					let _ = catch(|| cfg.set(k, v.clone()));
					r
				}
				None => {
					out.push(T_PANIC);
					return out;
				}
			}
		} else {
			match catch(|| cfg.set(k, v.clone())) {
				Some(r) => r,
				None => {
					out.push(T_PANIC);
					return out;
				}
			}
		};
		let after = vtree::to_value(&cfg).ok();
		// 0: Ok and changed or unchanged value; 1: Err and configuration unchanged; 2: Err but configuration CHANGED
		out.push(match r {
			Ok(()) => 0,
			Err(_) => {
				if before == after {
					1
				} else {
					2
				}
			}
		});
	}
	// stored configuration (flattened) so that "set changes exactly the named parameter" can be decided
	// layout: number of fields, then per field: length of its flattened value, the flattened value
	match vtree::to_value(&cfg) {
		Ok(vtree::Value::Map(kv)) => {
			out.push(kv.len() as i128);
			for (_, v) in &kv {
				let mut flat = Vec::new();
				v.flatten(&mut flat);
				out.push(flat.len() as i128);
				out.extend(flat);
			}
		}
		_ => out.push(0),
	}
	let (valid, size, name) = if use_dyn {
		(dcfg.validate(), dcfg.size(), dcfg.name())
	} else {
		(cfg.validate(), cfg.size(), cfg.name())
	};
	out.push(valid as i128);
	out.push(size.0 as i128);
	out.push(size.1 as i128);
	out.push(name_hash(name));
	out.push((name == C::NAME) as i128);

	match variant {
		"run" | "clone" | "serde" | "chunk" | "intofn" | "serde_each" => {
			let inst = match catch(|| cfg.clone().init(&c0)) {
				None => {
					out.push(T_PANIC);
					return out;
				}
				Some(Err(_)) => {
					out.push(T_ERR);
					return out;
				}
				Some(Ok(i)) => i,
			};
			out.push(0);
			let mut inst = inst;
			match variant {
				"run" => {
					for c in &cs {
						match catch(|| inst.next(c)) {
							Some(r) => push_result(&r, &mut out),
							None => {
								out.push(T_PANIC);
								break;
							}
						}
					}
				}
				"serde_each" => {
					// at every step: snapshot, restore, look ahead; a flag (-5 ok / -6 differs / -7 rejected) before each result
					let look = t.next_usize();
					for i in 0..cs.len() {
						let flag = match vtree::to_value(&inst) {
							Err(_) => -7,
							Ok(snap) => match catch(|| vtree::from_value::<C::Instance>(snap.clone())) {
								None | Some(Err(_)) => -7,
								Some(Ok(mut r)) => {
									let mut c = inst.clone();
									let mut ok = vtree::to_value(&r).ok() == Some(snap);
									for x in cs[i..].iter().take(look) {
										let (mut a, mut b) = (Vec::new(), Vec::new());
										push_result(&r.next(x), &mut a);
										push_result(&c.next(x), &mut b);
										ok &= a == b;
									}
									if ok {
										-5
									} else {
										-6
									}
								}
							},
						};
						out.push(flag);
						push_result(&inst.next(&cs[i]), &mut out);
					}
				}
				"intofn" => {
					let mut f = inst.into_fn();
					for c in &cs {
						match catch(|| f(c)) {
							Some(r) => push_result(&r, &mut out),
							None => {
								out.push(T_PANIC);
								break;
							}
						}
					}
				}
				"chunk" => {
					// extra: number of chunk sizes, then the sizes (may be 0); the remainder is one last chunk
					let sizes: Vec<usize> = (0..t.next_usize()).map(|_| t.next_usize()).collect();
					let mut pos = 0;
					let mut chunks: Vec<&[Candle]> = Vec::new();
					for s in sizes {
						let e = (pos + s).min(cs.len());
						chunks.push(&cs[pos..e]);
						pos = e;
					}
					chunks.push(&cs[pos..]);
					for ch in chunks {
						match catch(|| IndicatorInstance::over(&mut inst, ch)) {
							Some(rs) => rs.iter().for_each(|r| push_result(r, &mut out)),
							None => {
								out.push(T_PANIC);
								break;
							}
						}
					}
				}
				"clone" => {
					// extra: clone point; the original is then fed a perturbed stream first, the clone the true one
					let at = t.next_usize().min(cs.len());
					for c in &cs[..at] {
						push_result(&inst.next(c), &mut out);
					}
					let mut cl = inst.clone();
					for c in cs[at..].iter().rev() {
						let mut c2 = *c;
						c2.close = c2.high;
						c2.volume += 1.0;
						let _ = catch(|| inst.next(&c2));
					}
					for c in &cs[at..] {
						match catch(|| cl.next(c)) {
							Some(r) => push_result(&r, &mut out),
							None => {
								out.push(T_PANIC);
								break;
							}
						}
					}
				}
				_ => {
					// serde: snapshot after `at` steps, restore, continue the RESTORED instance
					let at = t.next_usize().min(cs.len());
					for c in &cs[..at] {
						push_result(&inst.next(c), &mut out);
					}
					let snap = match vtree::to_value(&inst) {
						Ok(v) => v,
						Err(_) => {
							out.push(T_ERR - 10);
							return out;
						}
					};
					let restored: Result<C::Instance, _> = match catch(|| vtree::from_value(snap.clone())) {
						Some(r) => r,
						None => {
							out.push(T_PANIC - 10);
							return out;
						}
					};
					let mut rs = match restored {
						Ok(r) => r,
						Err(_) => {
							out.push(T_ERR - 20);
							return out;
						}
					};
					// the restored instance serializes to the same tree; the configuration round-trips
					let again = vtree::to_value(&rs).ok();
					out.push((again.as_ref() == Some(&snap)) as i128);
					let cfgv = vtree::to_value(&cfg).ok();
					let cfg2: Option<C> = cfgv.clone().and_then(|v| vtree::from_value(v).ok());
					out.push((cfg2.and_then(|c| vtree::to_value(&c).ok()) == cfgv) as i128);
					for c in &cs[at..] {
						match catch(|| rs.next(c)) {
							Some(r) => push_result(&r, &mut out),
							None => {
								out.push(T_PANIC);
								break;
							}
						}
					}
				}
			}
		}
		"over" => {
			// IndicatorConfig::over on the whole sequence [c0] ++ cs is NOT what `run` does (run inits with c0 and feeds cs);
			// so feed c0 :: cs to `over` and let the driver compare with `run` initialised by c0 and fed c0 :: cs
			let mut all = vec![c0];
			all.extend(cs.iter().copied());
			match catch(|| cfg.clone().over(&all)) {
				None => out.push(T_PANIC),
				Some(Err(_)) => out.push(T_ERR),
				Some(Ok(rs)) => {
					out.push(0);
					rs.iter().for_each(|r| push_result(r, &mut out));
				}
			}
		}
		"initfn" => {
			let all: Vec<Candle> = std::iter::once(c0).chain(cs.iter().copied()).collect();
			let allr: &'static [Candle] = Box::leak(all.into_boxed_slice());
			match catch(|| cfg.clone().init_fn(&allr[0])) {
				None => out.push(T_PANIC),
				Some(Err(_)) => out.push(T_ERR),
				Some(Ok(mut f)) => {
					out.push(0);
					for c in allr {
						match catch(|| f(c)) {
							Some(r) => push_result(&r, &mut out),
							None => {
								out.push(T_PANIC);
								break;
							}
						}
					}
				}
			}
		}
		"dyn" => {
			let inst = match catch(|| dcfg.init(&c0)) {
				None => {
					out.push(T_PANIC);
					return out;
				}
				Some(Err(_)) => {
					out.push(T_ERR);
					return out;
				}
				Some(Ok(i)) => i,
			};
			out.push(0);
			let mut inst = inst;
			for c in &cs {
				match catch(|| inst.next(c)) {
					Some(r) => push_result(&r, &mut out),
					None => {
						out.push(T_PANIC);
						break;
					}
				}
			}
			// the instance reports the same size/name as its configuration
			let ok = inst.size() == size && inst.name() == name && inst.config().size() == size;
			out.push(ok as i128);
			// IndicatorConfigDyn::over == IndicatorConfig::over on the same slice (one result per candle, bit for bit)
			let mut all = vec![c0];
			all.extend(cs.iter().copied());
			let flat = |rs: &Vec<IndicatorResult>| {
				let mut v = vec![rs.len() as i128];
				rs.iter().for_each(|r| push_result(r, &mut v));
				v
			};
			let d = catch(|| dcfg.over(&all).map(|rs| flat(&rs)).map_err(|_| ()));
			let st = catch(|| cfg.clone().over(&all).map(|rs| flat(&rs)).map_err(|_| ()));
			out.push((d == st) as i128);
		}
		other => panic!("unknown indicator variant {other}"),
	}
	out
}

macro_rules! dispatch {
	($name:expr, $t:expr, $variant:expr, $($n:literal => $ty:ty),* $(,)?) => {
		match $name {
			$($n => drive::<$ty>($t, $variant),)*
			other => panic!("unknown indicator {other}"),
		}
	};
}

pub const NAMES: &[&str] = &[
	"Aroon", "AverageDirectionalIndex", "AwesomeOscillator", "BollingerBands", "ChaikinMoneyFlow", "ChaikinOscillator",
	"ChandeKrollStop", "ChandeMomentumOscillator", "CommodityChannelIndex", "CoppockCurve", "DetrendedPriceOscillator",
	"DonchianChannel", "EaseOfMovement", "EldersForceIndex", "Envelopes", "FisherTransform", "HullMovingAverage",
	"IchimokuCloud", "Kaufman", "KeltnerChannel", "KlingerVolumeOscillator", "KnowSureThing", "MACD", "MomentumIndex",
	"MoneyFlowIndex", "ParabolicSAR", "PivotReversalStrategy", "PriceChannelStrategy", "RelativeStrengthIndex",
	"RelativeVigorIndex", "SMIErgodicIndicator", "StochasticOscillator", "Trix", "TrendStrengthIndex", "TrueStrengthIndex",
	"WoodiesCCI",
];

pub fn run(t: &mut Toks) -> Vec<i128> {
	let name = t.next_str().to_string();
	let variant = t.next_str().to_string();
	let _ = ValueType::EPSILON;
	dispatch!(name.as_str(), t, variant.as_str(),
		"Aroon" => Aroon,
		"AverageDirectionalIndex" => AverageDirectionalIndex,
		"AwesomeOscillator" => AwesomeOscillator,
		"BollingerBands" => BollingerBands,
		"ChaikinMoneyFlow" => ChaikinMoneyFlow,
		"ChaikinOscillator" => ChaikinOscillator,
		"ChandeKrollStop" => ChandeKrollStop,
		"ChandeMomentumOscillator" => ChandeMomentumOscillator,
		"CommodityChannelIndex" => CommodityChannelIndex,
		"CoppockCurve" => CoppockCurve,
		"DetrendedPriceOscillator" => DetrendedPriceOscillator,
		"DonchianChannel" => DonchianChannel,
		"EaseOfMovement" => EaseOfMovement,
		"EldersForceIndex" => EldersForceIndex,
		"Envelopes" => Envelopes,
		"FisherTransform" => FisherTransform,
		"HullMovingAverage" => HullMovingAverage,
		"IchimokuCloud" => IchimokuCloud,
		"Kaufman" => Kaufman,
		"KeltnerChannel" => KeltnerChannel,
		"KlingerVolumeOscillator" => KlingerVolumeOscillator,
		"KnowSureThing" => KnowSureThing,
		"MACD" => MACD,
		"MomentumIndex" => MomentumIndex,
		"MoneyFlowIndex" => MoneyFlowIndex,
		"ParabolicSAR" => ParabolicSAR,
		"PivotReversalStrategy" => PivotReversalStrategy,
		"PriceChannelStrategy" => PriceChannelStrategy,
		"RelativeStrengthIndex" => RelativeStrengthIndex,
		"RelativeVigorIndex" => RelativeVigorIndex,
		"SMIErgodicIndicator" => SMIErgodicIndicator,
		"StochasticOscillator" => StochasticOscillator,
		"Trix" => Trix,
		"TrendStrengthIndex" => TrendStrengthIndex,
		"TrueStrengthIndex" => TrueStrengthIndex,
		"WoodiesCCI" => WoodiesCCI,
	)
}
