//! Correspondence harness: runs case lines against yata (built from /repo's
//! working tree) and prints, per case, a flat list of integers in the same
//! layout as the Coq model's `Exec/*` drivers.
use std::io::{self, BufRead, Write};

mod action;
mod common;
mod glue;
mod indicator;
mod method;
mod misc;
mod soak;
mod vtree;
mod window;

fn main() {
	// panics are outcomes (encoded in the transcript); VERIF_PANIC_MSG=1 also prints their messages to stderr for diagnosis
	let verbose = std::env::var("VERIF_PANIC_MSG").is_ok();
	std::panic::set_hook(Box::new(move |info| {
		if verbose {
			eprintln!("panic: {info}");
		}
	}));
	let stdin = io::stdin();
	let stdout = io::stdout();
	let mut out = io::BufWriter::new(stdout.lock());
	for line in stdin.lock().lines() {
		let line = line.expect("read");
		let line = line.trim();
		if line.is_empty() || line.starts_with('#') {
			continue;
		}
		let mut toks = common::Toks::new(line);
		let id = toks.next_str().to_string();
		let suite = toks.next_str().to_string();
		let res: Vec<i128> = match suite.as_str() {
			"window" => window::run(&mut toks),
			"action" => action::run(&mut toks),
			"method" => method::run(&mut toks),
			"indicator" => indicator::run(&mut toks),
			"glue" => glue::run(&mut toks),
			"text" => misc::text(&mut toks),
			"candle" => misc::candle(&mut toks),
			"iresult" => misc::iresult(&mut toks),
			"soak" => soak::run(&mut toks),
			other => panic!("unknown suite {other}"),
		};
		write!(out, "{id}").unwrap();
		for v in res {
			write!(out, " {v}").unwrap();
		}
		writeln!(out).unwrap();
		out.flush().unwrap(); // a later abort (UB check) must not swallow finished transcripts
	}
	out.flush().unwrap();
}
