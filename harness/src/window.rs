use crate::common::*;
use yata::core::{PeriodType, Window};

fn dump(w: &Window<u64>, out: &mut Vec<i128>) {
	out.push(w.as_slice().len() as i128);
	out.extend(w.as_slice().iter().map(|&v| v as i128));
	// oldest index is not exported directly: recover it through serialization
	let js = serde_json::to_value(w).expect("serialize");
	out.push(js["index"].as_u64().unwrap() as i128);
	out.push(w.len() as i128);
}

fn oldest_index(w: &Window<u64>) -> u64 {
	let js = serde_json::to_value(w).expect("serialize");
	js["index"].as_u64().unwrap()
}

fn to_pt(i: i128) -> Option<PeriodType> {
	PeriodType::try_from(i).ok()
}

fn run_iter(w: &Window<u64>, k: usize, rev: bool, out: &mut Vec<i128>) {
	let r = catch(|| {
		let mut v: Vec<i128> = Vec::new();
		macro_rules! body {
			($mk:expr) => {{
				let mut it = $mk;
				let mut items = Vec::new();
				for _ in 0..k {
					match it.next() {
						Some(x) => items.push(*x as i128),
						None => break,
					}
				}
				v.push(items.len() as i128);
				v.extend(items);
				let (lo, hi) = it.size_hint();
				if hi != Some(lo) || it.len() != lo {
					v.push(T_MISMATCH);
				} else {
					v.push(lo as i128);
				}
				v.push(it.count() as i128);
				// last() consumes: rebuild the same partially consumed iterator
				let mut it2 = $mk;
				for _ in 0..k {
					if it2.next().is_none() {
						break;
					}
				}
				match catch(|| it2.last().copied()) {
					Some(Some(x)) => v.push(x as i128),
					Some(None) => v.push(T_NONE),
					None => v.push(T_PANIC),
				}
			}};
		}
		if rev {
			body!(w.iter_rev())
		} else {
			body!(w.iter())
		}
		v
	});
	match r {
		Some(v) => out.extend(v),
		None => out.push(T_PANIC),
	}
}

pub fn run(t: &mut Toks) -> Vec<i128> {
	let mut out = Vec::new();
	let ctor = t.next_str();
	let w: Option<Result<Window<u64>, ()>> = match ctor {
		"new" => {
			let n = t.next_i();
			let v = t.next_u64();
			match to_pt(n) {
				Some(n) => catch(|| Ok(Window::new(n, v))),
				None => Some(Err(())),
			}
		}
		"parts" => {
			let b = t.next_list_u64();
			let i = t.next_i();
			match to_pt(i) {
				Some(i) => catch(|| Ok(Window::from_parts(b.into_boxed_slice(), i))),
				None => Some(Err(())),
			}
		}
		"empty" => Some(Ok(Window::empty())),
		"vec" => {
			let b = t.next_list_u64();
			catch(|| Ok(Window::from(b)))
		}
		"deser" => {
			let b = t.next_list_u64();
			let i = t.next_i();
			let js = format!(
				"{{\"buf\":[{}],\"index\":{}}}",
				b.iter().map(|x| x.to_string()).collect::<Vec<_>>().join(","),
				i
			);
			catch(|| serde_json::from_str::<Window<u64>>(&js).map_err(|_| ()))
		}
		other => panic!("unknown window ctor {other}"),
	};
	let mut w = match w {
		None => return vec![T_PANIC],
		Some(Err(())) => return vec![T_ERR],
		Some(Ok(w)) => w,
	};
	out.push(0);
	while let Some(tok) = t.next_opt() {
		match tok {
			";" => {}
			"push" => {
				let x = t.next_u64();
				match catch(|| w.push(x)) {
					Some(old) => out.push(old as i128),
					None => out.push(T_PANIC),
				}
			}
			"newest" => match catch(|| *w.newest()) {
				Some(v) => out.push(v as i128),
				None => out.push(T_PANIC),
			},
			"oldest" => match catch(|| *w.oldest()) {
				Some(v) => out.push(v as i128),
				None => out.push(T_PANIC),
			},
			"get" => {
				let i = to_pt(t.next_i()).expect("get index");
				match catch(|| w.get(i).copied()) {
					Some(Some(v)) => out.push(v as i128),
					Some(None) => out.push(T_NONE),
					None => out.push(T_PANIC),
				}
			}
			"index" => {
				let i = to_pt(t.next_i()).expect("index index");
				match catch(|| w[i]) {
					Some(v) => out.push(v as i128),
					None => out.push(T_PANIC),
				}
			}
			"len" => out.push(w.len() as i128),
			"isempty" => out.push(w.is_empty() as i128),
			"slice" => {
				let s: &[u64] = w.as_ref();
				if s != w.as_slice() {
					out.push(T_MISMATCH);
				}
				out.push(s.len() as i128);
				out.extend(s.iter().map(|&v| v as i128));
			}
			"iter" => {
				let k = t.next_usize();
				run_iter(&w, k, false, &mut out);
			}
			"iterrev" => {
				let k = t.next_usize();
				run_iter(&w, k, true, &mut out);
			}
			"iterall" => match catch(|| (&w).into_iter().copied().collect::<Vec<u64>>()) {
				Some(v) => {
					out.push(v.len() as i128);
					out.extend(v.iter().map(|&x| x as i128));
				}
				None => out.push(T_PANIC),
			},
			"iterrevall" => match catch(|| w.iter_rev().copied().collect::<Vec<u64>>()) {
				Some(v) => {
					out.push(v.len() as i128);
					out.extend(v.iter().map(|&x| x as i128));
				}
				None => out.push(T_PANIC),
			},
			"serde" => {
				let r = catch(|| {
					let s = serde_json::to_string(&w).expect("serialize");
					serde_json::from_str::<Window<u64>>(&s).map_err(|_| ())
				});
				match r {
					Some(Ok(w2)) => dump(&w2, &mut out),
					Some(Err(())) => out.push(T_ERR),
					None => out.push(T_PANIC),
				}
			}
			"reparts" => {
				let idx = oldest_index(&w) as PeriodType;
				let b: Box<[u64]> = w.as_slice().into();
				match catch(|| Window::from_parts(b, idx)) {
					Some(w2) => dump(&w2, &mut out),
					None => out.push(T_PANIC),
				}
			}
			"serdeswap" => {
				let r = catch(|| {
					let s = serde_json::to_string(&w).expect("serialize");
					serde_json::from_str::<Window<u64>>(&s).map_err(|_| ())
				});
				match r {
					Some(Ok(w2)) => {
						w = w2;
						out.push(0)
					}
					Some(Err(())) => out.push(T_ERR),
					None => out.push(T_PANIC),
				}
			}
			"repartsswap" => {
				let idx = oldest_index(&w) as PeriodType;
				let b: Box<[u64]> = w.as_slice().into();
				match catch(|| Window::from_parts(b, idx)) {
					Some(w2) => {
						w = w2;
						out.push(0)
					}
					None => out.push(T_PANIC),
				}
			}
			"clone" => {
				// continue with a clone; the original is mutated afterwards and dropped
				let c = w.clone();
				if !w.is_empty() {
					let _ = catch(|| w.push(u64::MAX));
				}
				w = c;
			}
			other => panic!("unknown window op {other}"),
		}
	}
	out
}
