//! Text parsing, candle helpers and timeseries converters (C10, C17, C18).
use crate::common::*;
use crate::method::{enc_candle, next_candle, next_candles};
use std::str::FromStr;
use yata::core::{Candle, Method, MovingAverageConstructor, Sequence, Source, ValueType, OHLCV};
use yata::helpers::MA;
use yata::methods::{CollapseTimeframe, Renko};

fn vb(x: ValueType) -> i128 {
	fbits(x as f64)
}
fn unhex(s: &str) -> String {
	if s == "-" {
		return String::new();
	}
	let bytes: Vec<u8> = (0..s.len() / 2).map(|i| u8::from_str_radix(&s[2 * i..2 * i + 2], 16).unwrap()).collect();
	String::from_utf8(bytes).expect("utf8")
}
pub fn ma_code(m: &MA) -> (i128, i128) {
	match *m {
		MA::SMA(n) => (0, n as i128),
		MA::WMA(n) => (1, n as i128),
		MA::HMA(n) => (2, n as i128),
		MA::RMA(n) => (3, n as i128),
		MA::EMA(n) => (4, n as i128),
		MA::DMA(n) => (5, n as i128),
		MA::DEMA(n) => (6, n as i128),
		MA::TMA(n) => (7, n as i128),
		MA::TEMA(n) => (8, n as i128),
		MA::WSMA(n) => (9, n as i128),
		MA::SMM(n) => (10, n as i128),
		MA::SWMA(n) => (11, n as i128),
		MA::TRIMA(n) => (12, n as i128),
		MA::LinReg(n) => (13, n as i128),
		MA::Vidya(n) => (14, n as i128),
		_ => (99, 0),
	}
}
fn source_code(s: Source) -> i128 {
	match s {
		Source::Close => 0,
		Source::High => 1,
		Source::Low => 2,
		Source::TP => 3,
		Source::HL2 => 4,
		Source::Volume => 5,
		Source::VolumedPrice => 6,
		Source::Open => 7,
		_ => 99,
	}
}
const SOURCES: [Source; 8] = [
	Source::Close,
	Source::High,
	Source::Low,
	Source::TP,
	Source::HL2,
	Source::Volume,
	Source::VolumedPrice,
	Source::Open,
];

pub fn text(t: &mut Toks) -> Vec<i128> {
	let what = t.next_str().to_string();
	match what.as_str() {
		"ma" => {
			let s = unhex(t.next_str());
			match catch(|| MA::from_str(&s)) {
				None => vec![T_PANIC],
				Some(Err(_)) => vec![T_ERR],
				Some(Ok(m)) => {
					let (k, n) = ma_code(&m);
					vec![0, k, n]
				}
			}
		}
		"source" => {
			let s = unhex(t.next_str());
			match catch(|| Source::from_str(&s)) {
				None => vec![T_PANIC],
				Some(Err(_)) => vec![T_ERR],
				Some(Ok(m)) => vec![0, source_code(m)],
			}
		}
		"source_str" => {
			// textual form of every Source and what it parses back to (also through TryFrom)
			let mut out = Vec::new();
			for s in SOURCES {
				let txt: &'static str = s.into();
				let st: String = s.into();
				out.push((txt == st) as i128);
				out.push(match Source::from_str(txt) {
					Ok(b) => source_code(b),
					Err(_) => T_ERR,
				});
				out.push(match Source::try_from(st) {
					Ok(b) => source_code(b),
					Err(_) => T_ERR,
				});
				out.extend(txt.bytes().map(|b| b as i128));
				out.push(-77);
			}
			out
		}
		"ma_init" => {
			// MA kind k, length n, initial value: construction through the MA constructor, then a few steps
			let k = t.next_i();
			let n = t.next_i() as u64;
			let x0 = t.next_f64() as ValueType;
			let xs: Vec<ValueType> = t.next_list_f64().into_iter().map(|x| x as ValueType).collect();
			let n = match yata::core::PeriodType::try_from(n) {
				Ok(n) => n,
				Err(_) => return vec![T_ERR],
			};
			let ma = match k {
				0 => MA::SMA(n),
				1 => MA::WMA(n),
				2 => MA::HMA(n),
				3 => MA::RMA(n),
				4 => MA::EMA(n),
				5 => MA::DMA(n),
				6 => MA::DEMA(n),
				7 => MA::TMA(n),
				8 => MA::TEMA(n),
				9 => MA::WSMA(n),
				10 => MA::SMM(n),
				11 => MA::SWMA(n),
				12 => MA::TRIMA(n),
				13 => MA::LinReg(n),
				_ => MA::Vidya(n),
			};
			let mut out = vec![ma.ma_period() as i128];
			match catch(|| ma.init(x0)) {
				None => out.push(T_PANIC),
				Some(Err(_)) => out.push(T_ERR),
				Some(Ok(mut inst)) => {
					out.push(0);
					for x in &xs {
						match catch(|| inst.next(x)) {
							Some(y) => out.push(vb(y)),
							None => {
								out.push(T_PANIC);
								break;
							}
						}
					}
				}
			}
			out
		}
		other => panic!("unknown text op {other}"),
	}
}

pub fn candle(t: &mut Toks) -> Vec<i128> {
	let what = t.next_str().to_string();
	match what.as_str() {
		"helpers" => {
			let c = next_candle(t);
			let pc = t.next_f64() as ValueType;
			let prev = Candle { close: pc, ..c };
			let mut out = vec![
				vb(c.tp()),
				vb(c.hl2()),
				vb(c.ohlc4()),
				vb(c.clv()),
				vb(c.tr_close(pc)),
				vb(c.tr(&prev)),
				vb(c.volumed_price()),
				c.validate() as i128,
				c.is_rising() as i128,
				c.is_falling() as i128,
			];
			for s in SOURCES {
				out.push(vb(c.source(s)));
			}
			// the tuple / array impls read the same fields
			let tup = (c.open, c.high, c.low, c.close, c.volume);
			let arr = [c.open, c.high, c.low, c.close, c.volume];
			out.push((vb(tup.tp()) == vb(c.tp()) && vb(arr.ohlc4()) == vb(c.ohlc4()) && tup.validate() == c.validate()) as i128);
			out
		}
		"add" => {
			let a = next_candle(t);
			let b = next_candle(t);
			let c = next_candle(t);
			let mut out = Vec::new();
			enc_candle(&((a + b) + c), &mut out);
			enc_candle(&(a + (b + c)), &mut out);
			enc_candle(&(a + b), &mut out);
			out
		}
		"seqvalidate" => {
			let cs = next_candles(t);
			let xs: Vec<ValueType> = cs.iter().map(|c| c.close).collect();
			vec![Sequence::validate(&cs) as i128, Sequence::validate(&xs) as i128]
		}
		"collapse" => {
			// streaming CollapseTimeframe against the batch collapse of the same candles
			let period = t.next_usize();
			let cs = next_candles(t);
			let mut out = Vec::new();
			let m = catch(|| CollapseTimeframe::<Candle>::new(period, &cs[0]));
			let mut m = match m {
				None => return vec![T_PANIC],
				Some(Err(_)) => return vec![T_ERR],
				Some(Ok(m)) => m,
			};
			out.push(0);
			for c in &cs {
				match catch(|| m.next(c)) {
					None => {
						out.push(T_PANIC);
						return out;
					}
					Some(None) => out.push(-1),
					Some(Some(k)) => {
						out.push(1);
						enc_candle(&k, &mut out);
					}
				}
			}
			out.push(-77);
			match catch(|| cs.collapse_timeframe(period, false)) {
				None => out.push(T_PANIC),
				Some(v) => {
					out.push(v.len() as i128);
					v.iter().for_each(|k| enc_candle(k, &mut out));
				}
			}
			out
		}
		"renko" => {
			// brick size, source index, first candle, candles: per step: len, sign, gap, volume, then the bricks (open, close, volume)
			let size = t.next_f64() as ValueType;
			let src = SOURCES[t.next_usize() % 8];
			let c0 = next_candle(t);
			let cs = next_candles(t);
			let mut m = match catch(|| Renko::new((size, src), &c0)) {
				None => return vec![T_PANIC],
				Some(Err(_)) => return vec![T_ERR],
				Some(Ok(m)) => m,
			};
			let mut out = vec![0];
			for c in &cs {
				match catch(|| {
					let o = m.next(c);
					let mut v = vec![o.len() as i128, o.sign() as i128, vb(o.open()), vb(o.close()), vb(OHLCV::volume(&o))];
					let hint = o.size_hint().0;
					v.push(hint as i128);
					for b in o.clone().take(64) {
						v.push(vb(b.open));
						v.push(vb(b.close));
						v.push(vb(b.volume));
					}
					v
				}) {
					Some(v) => out.extend(v),
					None => {
						out.push(T_PANIC);
						break;
					}
				}
			}
			out
		}
		other => panic!("unknown candle op {other}"),
	}
}


/// IndicatorResult::new with nv values and ns signals (any counts): announced lengths, slice lengths, contents
pub fn iresult(t: &mut Toks) -> Vec<i128> {
	use yata::core::{Action, IndicatorResult};
	let nv = t.next_usize();
	let ns = t.next_usize();
	let vals: Vec<ValueType> = (0..nv).map(|i| (i as ValueType) * 0.5 + 1.0).collect();
	let sigs: Vec<Action> = (0..ns).map(|i| Action::from((i as i8) * 2 - 3)).collect();
	let mut out = Vec::new();
	match catch(|| IndicatorResult::new(&vals, &sigs)) {
		None => out.push(T_PANIC),
		Some(r) => {
			out.push(0);
			out.push(r.values_length() as i128);
			out.push(r.signals_length() as i128);
			out.push(r.size().0 as i128);
			out.push(r.size().1 as i128);
			match catch(|| (r.values().to_vec(), r.signals().to_vec())) {
				None => out.push(T_PANIC),
				Some((v, sg)) => {
					out.push(v.len() as i128);
					out.push(sg.len() as i128);
					// contents are the leading inputs
					let okv = v.iter().zip(vals.iter()).all(|(a, b)| a.to_bits() == b.to_bits());
					let oks = sg.iter().zip(sigs.iter()).all(|(a, b)| a == b);
					out.push((okv && oks) as i128);
					// the indexed accessors: value(i) / signal(i) return the i-th element of the slice for an announced index and
					// panic (documented) for any other index
					let mut acc = 1;
					for i in 0..6usize {
						let gv = catch(|| r.value(i));
						let gs = catch(|| r.signal(i));
						let okv = match gv { Some(x) => i < v.len() && x.to_bits() == v[i].to_bits(), None => i >= v.len() };
						let oks = match gs { Some(a) => i < sg.len() && a == sg[i], None => i >= sg.len() };
						if !(okv && oks) { acc = 0; }
					}
					out.push(acc);
				}
			}
		}
	}
	out
}
