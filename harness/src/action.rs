use crate::common::*;
use std::cmp::Ordering;
use yata::core::Action;

pub fn enc(a: Action) -> i128 {
	match a {
		Action::Buy(k) => k as i128,
		Action::None => 1000,
		Action::Sell(k) => 2000 + k as i128,
	}
}

fn all_actions() -> Vec<Action> {
	let mut v: Vec<Action> = (0..=255u8).map(Action::Buy).collect();
	v.push(Action::None);
	v.extend((0..=255u8).map(Action::Sell));
	v
}

fn dec(z: i128) -> Action {
	if z == 1000 {
		Action::None
	} else if z < 1000 {
		Action::Buy(z as u8)
	} else {
		Action::Sell((z - 2000) as u8)
	}
}

pub fn run(t: &mut Toks) -> Vec<i128> {
	let mut out = Vec::new();
	match t.next_str() {
		"all" => {
			for a in all_actions() {
				out.push(a.ratio().map_or(T_NONE, |r| fbits(r as f64)));
				out.push(a.analog() as i128);
				out.push(a.sign().map_or(T_NONE, |s| s as i128 + 10));
				out.push(a.value().map_or(T_NONE, |v| v as i128));
				if a.is_none() == a.is_some() {
					out.push(T_MISMATCH);
				}
				out.push(a.is_none() as i128);
				out.push(enc(-a));
				out.push(enc(Action::from(a.ratio())));
			}
		}
		"pairs" => {
			let a = dec(t.next_i());
			for b in all_actions() {
				out.push(enc(a - b));
				let e = a == b;
				if e == (a != b) {
					out.push(T_MISMATCH);
				}
				out.push(e as i128);
				let c = a.cmp(&b);
				if a.partial_cmp(&b) != Some(c) {
					out.push(T_MISMATCH);
				}
				out.push(match c {
					Ordering::Less => -1,
					Ordering::Equal => 0,
					Ordering::Greater => 1,
				});
			}
		}
		"i8" => {
			for v in i8::MIN..=i8::MAX {
				out.push(enc(Action::from(v)));
				if Action::from_analog(v) != Action::from(v) || Action::from(&v) != Action::from(v) {
					out.push(T_MISMATCH);
				}
				out.push(enc(Action::from(Some(v))));
			}
			out.push(enc(Action::from(Option::<i8>::None)));
			out.push(enc(Action::from(true)));
			out.push(enc(Action::from(false)));
		}
		"f64" => {
			let xs = t.next_list_f64();
			for x in xs {
				match catch(|| Action::from(x)) {
					Some(a) => {
						if enc(Action::from(Some(x))) != enc(a) || enc(Action::from(&x)) != enc(a) {
							out.push(T_MISMATCH);
						}
						out.push(enc(a))
					}
					None => out.push(T_PANIC),
				}
			}
		}
		"f32" => {
			// floats given as f64 bit patterns of values exactly representable in f32
			let xs = t.next_list_f64();
			for x in xs {
				let y = x as f32;
				if (y as f64).to_bits() != x.to_bits() && !x.is_nan() {
					out.push(T_MISMATCH);
				}
				match catch(|| Action::from(y)) {
					Some(a) => out.push(enc(a)),
					None => out.push(T_PANIC),
				}
			}
		}
		"f32sweep" => {
			// every stride-th f32 bit pattern of each sign, in increasing numeric order:
			// monotone? sign kept? NaN -> None?  Reports the first pattern of every new output.
			let stride = t.next_u64() as u32;
			let mut viol: i128 = 0;
			let mut firsts: Vec<(i128, i128)> = Vec::new();
			for neg in [false, true] {
				let mut last: i128 = -1;
				let mut bits: u64 = 0;
				while bits <= 0x7f80_0000 {
					let b = bits as u32 | if neg { 0x8000_0000 } else { 0 };
					let x = f32::from_bits(b);
					let a = Action::from(x);
					let (dir_ok, s) = match a {
						Action::Buy(k) => (!neg, k as i128),
						Action::Sell(k) => (neg, k as i128),
						Action::None => (false, -5),
					};
					if !dir_ok || s < last {
						viol += 1;
					}
					if s != last {
						firsts.push((b as i128, enc(a)));
						last = s;
					}
					bits += stride as u64;
				}
				// infinity is always included
				let a = Action::from(if neg { f32::NEG_INFINITY } else { f32::INFINITY });
				if enc(a) != if neg { 2255 } else { 255 } {
					viol += 1;
				}
			}
			// NaNs
			let mut nb: u64 = 0x7f80_0001;
			while nb <= 0x7fff_ffff {
				if Action::from(f32::from_bits(nb as u32)) != Action::None
					|| enc(Action::from(f32::from_bits(nb as u32 | 0x8000_0000))) != 1000
				{
					viol += 1;
				}
				nb += stride as u64 * 4 + 1;
			}
			out.push(viol);
			out.push(firsts.len() as i128);
			for (b, e) in firsts {
				out.push(b);
				out.push(e);
			}
		}
		other => panic!("unknown action op {other}"),
	}
	out
}
