#![allow(dead_code)]
pub const T_NONE: i128 = -1;
pub const T_ERR: i128 = -2;
pub const T_PANIC: i128 = -3;
pub const T_MISMATCH: i128 = -99;

pub struct Toks<'a> {
	it: std::str::SplitWhitespace<'a>,
	peeked: Option<&'a str>,
}

impl<'a> Toks<'a> {
	pub fn new(s: &'a str) -> Self {
		Self {
			it: s.split_whitespace(),
			peeked: None,
		}
	}
	pub fn peek(&mut self) -> Option<&'a str> {
		if self.peeked.is_none() {
			self.peeked = self.it.next();
		}
		self.peeked
	}
	pub fn next_opt(&mut self) -> Option<&'a str> {
		if let Some(p) = self.peeked.take() {
			return Some(p);
		}
		self.it.next()
	}
	pub fn next_str(&mut self) -> &'a str {
		self.next_opt().expect("token expected")
	}
	pub fn next_i(&mut self) -> i128 {
		self.next_str().parse::<i128>().expect("integer expected")
	}
	pub fn next_u64(&mut self) -> u64 {
		self.next_str().parse::<u64>().expect("u64 expected")
	}
	pub fn next_usize(&mut self) -> usize {
		self.next_str().parse::<usize>().expect("usize expected")
	}
	/// float given as 16 hex digits of its IEEE-754 binary64 bit pattern
	pub fn next_f64(&mut self) -> f64 {
		let s = self.next_str();
		f64::from_bits(u64::from_str_radix(s, 16).expect("hex bits expected"))
	}
	pub fn next_list_u64(&mut self) -> Vec<u64> {
		let k = self.next_usize();
		(0..k).map(|_| self.next_u64()).collect()
	}
	pub fn next_list_f64(&mut self) -> Vec<f64> {
		let k = self.next_usize();
		(0..k).map(|_| self.next_f64()).collect()
	}
}

/// canonical encoding of a float: its bit pattern, all NaNs collapsed
pub fn fbits(x: f64) -> i128 {
	if x.is_nan() {
		0x7ff8_0000_0000_0000_i128
	} else {
		x.to_bits() as i128
	}
}

pub fn catch<R>(f: impl FnOnce() -> R) -> Option<R> {
	std::panic::catch_unwind(std::panic::AssertUnwindSafe(f)).ok()
}
