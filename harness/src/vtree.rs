//! A small self-describing value tree with a serde Serializer/Deserializer pair that keeps every
//! float as its bit pattern (NaN, infinities and the sign of zero survive), used for snapshot /
//! restore (C13) and for dumping internal state.
#![allow(dead_code)]
use serde::de::{self, DeserializeSeed, EnumAccess, IntoDeserializer, MapAccess, SeqAccess, VariantAccess, Visitor};
use serde::ser::{self, Serialize};
use std::fmt;

#[derive(Debug, Clone, PartialEq)]
pub enum Value {
	Unit,
	Bool(bool),
	U64(u64),
	I64(i64),
	F64(u64),
	F32(u32),
	Str(String),
	None,
	Some(Box<Value>),
	Seq(Vec<Value>),
	Map(Vec<(Value, Value)>),
	/// enum variant: name + payload (Unit for unit variants)
	Variant(String, Box<Value>),
}

impl Value {
	/// flat integer rendering (for transcripts)
	pub fn flatten(&self, out: &mut Vec<i128>) {
		match self {
			Value::Unit => out.push(-10),
			Value::Bool(b) => out.push(*b as i128),
			Value::U64(v) => out.push(*v as i128),
			Value::I64(v) => out.push(*v as i128),
			Value::F64(b) => out.push(if f64::from_bits(*b).is_nan() { 0x7ff8_0000_0000_0000 } else { *b as i128 }),
			Value::F32(b) => out.push(crate::common::fbits(f32::from_bits(*b) as f64)),
			Value::Str(s) => out.push(s.bytes().fold(7i128, |a, b| (a * 131 + b as i128) % 1_000_000_007)),
			Value::None => out.push(-11),
			Value::Some(v) => {
				out.push(-12);
				v.flatten(out)
			}
			Value::Seq(vs) => {
				out.push(-13);
				out.push(vs.len() as i128);
				vs.iter().for_each(|v| v.flatten(out))
			}
			Value::Map(kv) => {
				out.push(-14);
				out.push(kv.len() as i128);
				kv.iter().for_each(|(_, v)| v.flatten(out))
			}
			Value::Variant(n, v) => {
				out.push(-15);
				Value::Str(n.clone()).flatten(out);
				v.flatten(out)
			}
		}
	}
}

#[derive(Debug)]
pub struct Error(pub String);
impl fmt::Display for Error {
	fn fmt(&self, f: &mut fmt::Formatter) -> fmt::Result {
		write!(f, "{}", self.0)
	}
}
impl std::error::Error for Error {}
impl ser::Error for Error {
	fn custom<T: fmt::Display>(msg: T) -> Self {
		Error(msg.to_string())
	}
}
impl de::Error for Error {
	fn custom<T: fmt::Display>(msg: T) -> Self {
		Error(msg.to_string())
	}
}

pub fn to_value<T: Serialize + ?Sized>(t: &T) -> Result<Value, Error> {
	t.serialize(Ser)
}
pub fn from_value<'de, T: de::Deserialize<'de>>(v: Value) -> Result<T, Error> {
	T::deserialize(v)
}

pub struct Ser;
pub struct SeqSer(Vec<Value>, Option<String>);
pub struct MapSer(Vec<(Value, Value)>, Option<Value>, Option<String>);

impl ser::Serializer for Ser {
	type Ok = Value;
	type Error = Error;
	type SerializeSeq = SeqSer;
	type SerializeTuple = SeqSer;
	type SerializeTupleStruct = SeqSer;
	type SerializeTupleVariant = SeqSer;
	type SerializeMap = MapSer;
	type SerializeStruct = MapSer;
	type SerializeStructVariant = MapSer;
	fn serialize_bool(self, v: bool) -> Result<Value, Error> {
		Ok(Value::Bool(v))
	}
	fn serialize_i8(self, v: i8) -> Result<Value, Error> {
		Ok(Value::I64(v as i64))
	}
	fn serialize_i16(self, v: i16) -> Result<Value, Error> {
		Ok(Value::I64(v as i64))
	}
	fn serialize_i32(self, v: i32) -> Result<Value, Error> {
		Ok(Value::I64(v as i64))
	}
	fn serialize_i64(self, v: i64) -> Result<Value, Error> {
		Ok(Value::I64(v))
	}
	fn serialize_u8(self, v: u8) -> Result<Value, Error> {
		Ok(Value::U64(v as u64))
	}
	fn serialize_u16(self, v: u16) -> Result<Value, Error> {
		Ok(Value::U64(v as u64))
	}
	fn serialize_u32(self, v: u32) -> Result<Value, Error> {
		Ok(Value::U64(v as u64))
	}
	fn serialize_u64(self, v: u64) -> Result<Value, Error> {
		Ok(Value::U64(v))
	}
	fn serialize_f32(self, v: f32) -> Result<Value, Error> {
		Ok(Value::F32(v.to_bits()))
	}
	fn serialize_f64(self, v: f64) -> Result<Value, Error> {
		Ok(Value::F64(v.to_bits()))
	}
	fn serialize_char(self, v: char) -> Result<Value, Error> {
		Ok(Value::Str(v.to_string()))
	}
	fn serialize_str(self, v: &str) -> Result<Value, Error> {
		Ok(Value::Str(v.to_string()))
	}
	fn serialize_bytes(self, v: &[u8]) -> Result<Value, Error> {
		Ok(Value::Seq(v.iter().map(|b| Value::U64(*b as u64)).collect()))
	}
	fn serialize_none(self) -> Result<Value, Error> {
		Ok(Value::None)
	}
	fn serialize_some<T: Serialize + ?Sized>(self, v: &T) -> Result<Value, Error> {
		Ok(Value::Some(Box::new(v.serialize(Ser)?)))
	}
	fn serialize_unit(self) -> Result<Value, Error> {
		Ok(Value::Unit)
	}
	fn serialize_unit_struct(self, _: &'static str) -> Result<Value, Error> {
		Ok(Value::Unit)
	}
	fn serialize_unit_variant(self, _: &'static str, _: u32, variant: &'static str) -> Result<Value, Error> {
		Ok(Value::Variant(variant.to_string(), Box::new(Value::Unit)))
	}
	fn serialize_newtype_struct<T: Serialize + ?Sized>(self, _: &'static str, v: &T) -> Result<Value, Error> {
		v.serialize(Ser)
	}
	fn serialize_newtype_variant<T: Serialize + ?Sized>(
		self,
		_: &'static str,
		_: u32,
		variant: &'static str,
		v: &T,
	) -> Result<Value, Error> {
		Ok(Value::Variant(variant.to_string(), Box::new(v.serialize(Ser)?)))
	}
	fn serialize_seq(self, _: Option<usize>) -> Result<SeqSer, Error> {
		Ok(SeqSer(Vec::new(), None))
	}
	fn serialize_tuple(self, _: usize) -> Result<SeqSer, Error> {
		Ok(SeqSer(Vec::new(), None))
	}
	fn serialize_tuple_struct(self, _: &'static str, _: usize) -> Result<SeqSer, Error> {
		Ok(SeqSer(Vec::new(), None))
	}
	fn serialize_tuple_variant(self, _: &'static str, _: u32, variant: &'static str, _: usize) -> Result<SeqSer, Error> {
		Ok(SeqSer(Vec::new(), Some(variant.to_string())))
	}
	fn serialize_map(self, _: Option<usize>) -> Result<MapSer, Error> {
		Ok(MapSer(Vec::new(), None, None))
	}
	fn serialize_struct(self, _: &'static str, _: usize) -> Result<MapSer, Error> {
		Ok(MapSer(Vec::new(), None, None))
	}
	fn serialize_struct_variant(self, _: &'static str, _: u32, variant: &'static str, _: usize) -> Result<MapSer, Error> {
		Ok(MapSer(Vec::new(), None, Some(variant.to_string())))
	}
}

impl SeqSer {
	fn finish(self) -> Value {
		let s = Value::Seq(self.0);
		match self.1 {
			Some(n) => Value::Variant(n, Box::new(s)),
			None => s,
		}
	}
}
impl ser::SerializeSeq for SeqSer {
	type Ok = Value;
	type Error = Error;
	fn serialize_element<T: Serialize + ?Sized>(&mut self, v: &T) -> Result<(), Error> {
		self.0.push(v.serialize(Ser)?);
		Ok(())
	}
	fn end(self) -> Result<Value, Error> {
		Ok(self.finish())
	}
}
impl ser::SerializeTuple for SeqSer {
	type Ok = Value;
	type Error = Error;
	fn serialize_element<T: Serialize + ?Sized>(&mut self, v: &T) -> Result<(), Error> {
		self.0.push(v.serialize(Ser)?);
		Ok(())
	}
	fn end(self) -> Result<Value, Error> {
		Ok(self.finish())
	}
}
impl ser::SerializeTupleStruct for SeqSer {
	type Ok = Value;
	type Error = Error;
	fn serialize_field<T: Serialize + ?Sized>(&mut self, v: &T) -> Result<(), Error> {
		self.0.push(v.serialize(Ser)?);
		Ok(())
	}
	fn end(self) -> Result<Value, Error> {
		Ok(self.finish())
	}
}
impl ser::SerializeTupleVariant for SeqSer {
	type Ok = Value;
	type Error = Error;
	fn serialize_field<T: Serialize + ?Sized>(&mut self, v: &T) -> Result<(), Error> {
		self.0.push(v.serialize(Ser)?);
		Ok(())
	}
	fn end(self) -> Result<Value, Error> {
		Ok(self.finish())
	}
}
impl MapSer {
	fn finish(self) -> Value {
		let s = Value::Map(self.0);
		match self.2 {
			Some(n) => Value::Variant(n, Box::new(s)),
			None => s,
		}
	}
}
impl ser::SerializeMap for MapSer {
	type Ok = Value;
	type Error = Error;
	fn serialize_key<T: Serialize + ?Sized>(&mut self, k: &T) -> Result<(), Error> {
		self.1 = Some(k.serialize(Ser)?);
		Ok(())
	}
	fn serialize_value<T: Serialize + ?Sized>(&mut self, v: &T) -> Result<(), Error> {
		let k = self.1.take().ok_or_else(|| Error("value without key".into()))?;
		self.0.push((k, v.serialize(Ser)?));
		Ok(())
	}
	fn end(self) -> Result<Value, Error> {
		Ok(self.finish())
	}
}
impl ser::SerializeStruct for MapSer {
	type Ok = Value;
	type Error = Error;
	fn serialize_field<T: Serialize + ?Sized>(&mut self, k: &'static str, v: &T) -> Result<(), Error> {
		self.0.push((Value::Str(k.to_string()), v.serialize(Ser)?));
		Ok(())
	}
	fn end(self) -> Result<Value, Error> {
		Ok(self.finish())
	}
}
impl ser::SerializeStructVariant for MapSer {
	type Ok = Value;
	type Error = Error;
	fn serialize_field<T: Serialize + ?Sized>(&mut self, k: &'static str, v: &T) -> Result<(), Error> {
		self.0.push((Value::Str(k.to_string()), v.serialize(Ser)?));
		Ok(())
	}
	fn end(self) -> Result<Value, Error> {
		Ok(self.finish())
	}
}

// ------------------------------------------------------------------ Deserializer
struct SeqDe(std::vec::IntoIter<Value>);
impl<'de> SeqAccess<'de> for SeqDe {
	type Error = Error;
	fn next_element_seed<T: DeserializeSeed<'de>>(&mut self, seed: T) -> Result<Option<T::Value>, Error> {
		match self.0.next() {
			Some(v) => seed.deserialize(v).map(Some),
			None => Ok(None),
		}
	}
	fn size_hint(&self) -> Option<usize> {
		Some(self.0.len())
	}
}
struct MapDe(std::vec::IntoIter<(Value, Value)>, Option<Value>);
impl<'de> MapAccess<'de> for MapDe {
	type Error = Error;
	fn next_key_seed<K: DeserializeSeed<'de>>(&mut self, seed: K) -> Result<Option<K::Value>, Error> {
		match self.0.next() {
			Some((k, v)) => {
				self.1 = Some(v);
				seed.deserialize(k).map(Some)
			}
			None => Ok(None),
		}
	}
	fn next_value_seed<V: DeserializeSeed<'de>>(&mut self, seed: V) -> Result<V::Value, Error> {
		seed.deserialize(self.1.take().ok_or_else(|| Error("value without key".into()))?)
	}
}
struct EnumDe(String, Value);
impl<'de> EnumAccess<'de> for EnumDe {
	type Error = Error;
	type Variant = VarDe;
	fn variant_seed<V: DeserializeSeed<'de>>(self, seed: V) -> Result<(V::Value, VarDe), Error> {
		let name: de::value::StringDeserializer<Error> = self.0.into_deserializer();
		Ok((seed.deserialize(name)?, VarDe(self.1)))
	}
}
struct VarDe(Value);
impl<'de> VariantAccess<'de> for VarDe {
	type Error = Error;
	fn unit_variant(self) -> Result<(), Error> {
		match self.0 {
			Value::Unit => Ok(()),
			_ => Err(Error("unit variant expected".into())),
		}
	}
	fn newtype_variant_seed<T: DeserializeSeed<'de>>(self, seed: T) -> Result<T::Value, Error> {
		seed.deserialize(self.0)
	}
	fn tuple_variant<V: Visitor<'de>>(self, _: usize, visitor: V) -> Result<V::Value, Error> {
		de::Deserializer::deserialize_any(self.0, visitor)
	}
	fn struct_variant<V: Visitor<'de>>(self, _: &'static [&'static str], visitor: V) -> Result<V::Value, Error> {
		de::Deserializer::deserialize_any(self.0, visitor)
	}
}

impl<'de> de::Deserializer<'de> for Value {
	type Error = Error;
	fn deserialize_any<V: Visitor<'de>>(self, visitor: V) -> Result<V::Value, Error> {
		match self {
			Value::Unit => visitor.visit_unit(),
			Value::Bool(b) => visitor.visit_bool(b),
			Value::U64(v) => visitor.visit_u64(v),
			Value::I64(v) => visitor.visit_i64(v),
			Value::F64(b) => visitor.visit_f64(f64::from_bits(b)),
			Value::F32(b) => visitor.visit_f32(f32::from_bits(b)),
			Value::Str(s) => visitor.visit_string(s),
			Value::None => visitor.visit_none(),
			Value::Some(v) => visitor.visit_some(*v),
			Value::Seq(vs) => visitor.visit_seq(SeqDe(vs.into_iter())),
			Value::Map(kv) => visitor.visit_map(MapDe(kv.into_iter(), None)),
			Value::Variant(n, v) => visitor.visit_enum(EnumDe(n, *v)),
		}
	}
	fn deserialize_option<V: Visitor<'de>>(self, visitor: V) -> Result<V::Value, Error> {
		match self {
			Value::None => visitor.visit_none(),
			Value::Some(v) => visitor.visit_some(*v),
			Value::Unit => visitor.visit_none(),
			other => visitor.visit_some(other),
		}
	}
	fn deserialize_enum<V: Visitor<'de>>(
		self,
		_: &'static str,
		_: &'static [&'static str],
		visitor: V,
	) -> Result<V::Value, Error> {
		match self {
			Value::Variant(n, v) => visitor.visit_enum(EnumDe(n, *v)),
			Value::Str(s) => visitor.visit_enum(EnumDe(s, Value::Unit)),
			_ => Err(Error("enum expected".into())),
		}
	}
	fn deserialize_newtype_struct<V: Visitor<'de>>(self, _: &'static str, visitor: V) -> Result<V::Value, Error> {
		visitor.visit_newtype_struct(self)
	}
	fn deserialize_f32<V: Visitor<'de>>(self, visitor: V) -> Result<V::Value, Error> {
		match self {
			Value::F32(b) => visitor.visit_f32(f32::from_bits(b)),
			Value::F64(b) => visitor.visit_f64(f64::from_bits(b)),
			other => other.deserialize_any(visitor),
		}
	}
	serde::forward_to_deserialize_any! {
		bool i8 i16 i32 i64 i128 u8 u16 u32 u64 u128 f64 char str string bytes byte_buf unit unit_struct
		seq tuple tuple_struct map struct identifier ignored_any
	}
}
