//! C07 long-stream soak.  The stream is generated here by the same integer LCG and the same binary64
//! operations as coq/Exec/SoakRun.v (volatile -> exactly flat -> volatile phases of length P with scale
//! jumps between them), so streams of 10^5..10^7 steps need no input literals.
//!
//! `soak <Name> <params..> <seed> <P> <base> <steps> <W> <nsamples> <t1> .. <tk>`
//! Block 1 (layout of the Coq driver): 0, per sample position [t, bits of x_t, encoded output..], checksum of the
//! inputs, checksum of the outputs.  Then -77 and block 2 (oracles on the implementation alone): per sample
//! [t, W, the last W inputs (oldest first), the output of a FRESH instance built from the oldest of them and fed
//! all W].
use crate::action::enc as enc_action;
use crate::common::*;
use yata::core::{Action, Candle, Method, PeriodType, ValueType};
use yata::methods::*;

const A: u64 = 6364136223846793005;
const C: u64 = 1442695040888963407;
const MASK: u64 = (1u64 << 63) - 1;

#[derive(Clone)]
pub struct Gen {
	pub s: u64,
	pub y: f64,
	pub x: f64,
	pub t: u64,
	pub p: u64,
	pub base: f64,
}

fn lcg(s: u64) -> u64 {
	s.wrapping_mul(A).wrapping_add(C) & MASK
}
fn unit_of(s: u64) -> f64 {
	((s >> 10) as f64) * (0.5f64).powi(53)
}
fn scale_of(phase: u64) -> f64 {
	match (phase / 2) % 4 {
		0 => 1.0,
		1 => 1000.0,
		2 => (0.5f64).powi(10),
		_ => 30.0,
	}
}

impl Gen {
	pub fn new(seed: u64, p: u64, base: f64) -> Self {
		let mut g = Gen { s: seed & MASK, y: 0.0, x: base, t: 0, p, base };
		g.next_x();
		g
	}
	fn is_flat(&self) -> bool {
		(self.t / self.p) % 2 == 1
	}
	pub fn next_x(&mut self) -> f64 {
		let s1 = lcg(self.s);
		if !self.is_flat() {
			let u = unit_of(s1);
			let y = 0.95 * self.y + (u - 0.5);
			let x = (self.base * scale_of(self.t / self.p)) * (1.0 + 0.05 * y);
			self.y = y;
			self.x = x;
		}
		self.s = s1;
		self.t += 1;
		self.x
	}
	pub fn next_candle(&mut self) -> Candle {
		let o = self.x;
		let flat = self.is_flat();
		let c = self.next_x();
		let s2 = lcg(self.s);
		let s3 = lcg(s2);
		let s4 = lcg(s3);
		let hi = if o < c { c } else { o };
		let lo = if o < c { o } else { c };
		let h = if flat { hi } else { hi * (1.0 + 0.01 * unit_of(s2)) };
		let l = if flat { lo } else { lo * (1.0 - 0.01 * unit_of(s3)) };
		let v = (s4 >> 53) as f64;
		self.s = s4;
		Candle { open: o as ValueType, high: h as ValueType, low: l as ValueType, close: c as ValueType, volume: v as ValueType }
	}
}

pub fn chk_step(chk: f64, x: f64) -> f64 {
	if x.is_finite() {
		chk * 0.75 + x
	} else {
		chk
	}
}

pub struct Plan {
	pub seed: u64,
	pub p: u64,
	pub base: f64,
	pub steps: u64,
	pub w: usize,
	pub samples: Vec<u64>,
}
pub fn plan(t: &mut Toks) -> Plan {
	let seed = t.next_u64();
	let p = t.next_u64();
	let base = t.next_f64();
	let steps = t.next_u64();
	let w = t.next_usize();
	let samples = t.next_list_u64();
	Plan { seed, p, base, steps, w, samples }
}

/// generic soak of a method with scalar input
fn soak_m<M, O>(
	pl: &Plan,
	ctor: impl Fn(&ValueType) -> Result<M, yata::core::Error>,
	enc: impl Fn(&O, &mut Vec<i128>, &mut Vec<f64>),
) -> Vec<i128>
where
	M: Method<Input = ValueType, Output = O>,
{
	let mut g = Gen::new(pl.seed, pl.p, pl.base);
	let x0 = g.x as ValueType;
	let mut m = match catch(|| ctor(&x0)) {
		None => return vec![T_PANIC],
		Some(Err(_)) => return vec![T_ERR],
		Some(Ok(m)) => m,
	};
	let mut out = vec![0];
	let mut block2 = Vec::new();
	let (mut ci, mut co) = (0.0f64, 0.0f64);
	let mut ring: std::collections::VecDeque<ValueType> = std::collections::VecDeque::with_capacity(pl.w + 1);
	let mut si = 0usize;
	let mut vals = Vec::new();
	for n in 1..=pl.steps {
		let x = g.next_x() as ValueType;
		if ring.len() == pl.w {
			ring.pop_front();
		}
		ring.push_back(x);
		let o = match catch(|| m.next(&x)) {
			Some(o) => o,
			None => {
				out.push(T_PANIC);
				return out;
			}
		};
		ci = chk_step(ci, x as f64);
		vals.clear();
		if si < pl.samples.len() && pl.samples[si] == n {
			si += 1;
			out.push(n as i128);
			out.push(fbits(x as f64));
			enc(&o, &mut out, &mut vals);
			// fresh instance primed with the recent inputs
			block2.push(n as i128);
			block2.push(ring.len() as i128);
			block2.extend(ring.iter().map(|v| fbits(*v as f64)));
			let fresh = catch(|| {
				let mut f = ctor(&ring[0]).unwrap();
				let mut last = None;
				for v in ring.iter() {
					last = Some(f.next(v));
				}
				last.unwrap()
			});
			match fresh {
				Some(fo) => {
					let mut dummy = Vec::new();
					enc(&fo, &mut block2, &mut dummy);
				}
				None => block2.push(T_PANIC),
			}
		} else {
			let mut sink = Vec::new();
			enc(&o, &mut sink, &mut vals);
		}
		for v in &vals {
			co = chk_step(co, *v);
		}
	}
	out.push(fbits(ci));
	out.push(fbits(co));
	out.push(-77);
	out.extend(block2);
	out
}

fn enc_f(o: &ValueType, out: &mut Vec<i128>, vals: &mut Vec<f64>) {
	out.push(fbits(*o as f64));
	vals.push(*o as f64);
}
fn enc_p(o: &PeriodType, out: &mut Vec<i128>, vals: &mut Vec<f64>) {
	out.push(*o as i128);
	vals.push(*o as f64);
}
fn enc_a(o: &Action, out: &mut Vec<i128>, vals: &mut Vec<f64>) {
	let e = enc_action(*o);
	out.push(e);
	vals.push(e as f64);
}

macro_rules! sc {
	($ty:ty, $t:expr) => {{
		let n = $t.next_i();
		let pl = plan($t);
		match PeriodType::try_from(n) {
			Err(_) => vec![T_ERR],
			Ok(n) => soak_m(&pl, |x0| <$ty>::new(n, x0), enc_f),
		}
	}};
}
macro_rules! scp {
	($ty:ty, $t:expr) => {{
		let n = $t.next_i();
		let pl = plan($t);
		match PeriodType::try_from(n) {
			Err(_) => vec![T_ERR],
			Ok(n) => soak_m(&pl, |x0| <$ty>::new(n, x0), enc_p),
		}
	}};
}
macro_rules! rv {
	($ty:ty, $t:expr) => {{
		let l = $t.next_i();
		let r = $t.next_i();
		let pl = plan($t);
		match (PeriodType::try_from(l), PeriodType::try_from(r)) {
			(Ok(l), Ok(r)) => soak_m(&pl, |x0| <$ty>::new(l, r, x0), enc_a),
			_ => vec![T_ERR],
		}
	}};
}

pub fn run(t: &mut Toks) -> Vec<i128> {
	let name = t.next_str().to_string();
	match name.as_str() {
		"SMA" => sc!(SMA, t),
		"WMA" => sc!(WMA, t),
		"SWMA" => sc!(SWMA, t),
		"TRIMA" => sc!(TRIMA, t),
		"HMA" => sc!(HMA, t),
		"LinReg" => sc!(LinReg, t),
		"EMA" => sc!(EMA, t),
		"DMA" => sc!(DMA, t),
		"TMA" => sc!(TMA, t),
		"DEMA" => sc!(DEMA, t),
		"TEMA" => sc!(TEMA, t),
		"RMA" => sc!(RMA, t),
		"WSMA" => sc!(WSMA, t),
		"Vidya" => sc!(Vidya, t),
		"StDev" => sc!(StDev, t),
		"MeanAbsDev" => sc!(MeanAbsDev, t),
		"LinearVolatility" => sc!(LinearVolatility, t),
		"Integral" => sc!(Integral, t),
		"Momentum" => sc!(Momentum, t),
		"RateOfChange" => sc!(RateOfChange, t),
		"Derivative" => sc!(Derivative, t),
		"Highest" => sc!(Highest, t),
		"Lowest" => sc!(Lowest, t),
		"HighestLowestDelta" => sc!(HighestLowestDelta, t),
		"CCI" => sc!(CCI, t),
		"HighestIndex" => scp!(HighestIndex, t),
		"LowestIndex" => scp!(LowestIndex, t),
		"UpperReversalSignal" => rv!(UpperReversalSignal, t),
		"LowerReversalSignal" => rv!(LowerReversalSignal, t),
		"ReversalSignal" => rv!(ReversalSignal, t),
		other => panic!("unknown soak method {other}"),
	}
}
