#!/usr/bin/env python3
"""Installs the confirmed seeded changes of one round into /verif/seeded/<P>-<letter>/.
usage: install_round.py /tmp/mut3 3 E F      (source dir, round number, letters for mutA / mutB)"""
import sys, os, re, json, shutil
src, rnd, la, lb = sys.argv[1], int(sys.argv[2]), sys.argv[3], sys.argv[4]
for P in sorted(os.listdir(src)):
    out = os.path.join(src, P, "out")
    if not os.path.isdir(out):
        continue
    notes = open(os.path.join(out, "MUT_NOTES.md")).read()
    # split the notes per mutation (headings mentioning mutA / mutB)
    parts = re.split(r"(?m)^(?=#+ .*mut[AB])", notes)
    for X, L in (("A", la), ("B", lb)):
        cf = os.path.join(out, "confirm_%s.txt" % X)
        if not os.path.exists(cf) or "\nCONFIRMED" not in open(cf).read():
            print("skip", P, X, "(not confirmed)")
            continue
        sid = "%s-%s" % (P, L)
        d = os.path.join("/verif/seeded", sid)
        os.makedirs(d, exist_ok=True)
        shutil.copy(os.path.join(out, "mut%s.diff" % X), os.path.join(d, "patch.diff"))
        shutil.copy(os.path.join(out, "demo_mut%s.rs" % X), os.path.join(d, "demonstration.rs"))
        shutil.copy(cf, os.path.join(d, "confirmation.txt"))
        mine = [p for p in parts if re.match(r"#+ .*mut%s" % X, p)]
        text = mine[0] if mine else notes
        open(os.path.join(d, "NOTES.md"), "w").write(text)
        head = text.strip().splitlines()[0].lstrip("# ").strip()
        m = re.search(r"Needed to manifest:?\**:?\s*(.+?)(?:\n\s*\n|\Z)", text, re.S)
        need = re.sub(r"\s+", " ", m.group(1)).strip() if m else ""
        files = sorted(set(re.findall(r"^\+\+\+ b/(\S+)", open(os.path.join(d, "patch.diff")).read(), re.M)))
        conf = open(cf).read()
        meta = dict(id=sid, property=P, round=rnd, summary=head, files_touched=files, needs_to_manifest=need, confirmed=True,
                    what_was_run=["scratch worktree of /repo under /tmp (removed afterwards), CARGO_NET_OFFLINE=true"] +
                                 [l[3:].strip() for l in conf.splitlines() if l.startswith("== ")],
                    produced_by="fresh sub-agent given only the text of the property and its own scratch worktree",
                    detection="see detection.txt (written by tools/seed_matrix.sh: patch applied to /repo, quick check run, patch undone)")
        json.dump(meta, open(os.path.join(d, "meta.json"), "w"), indent=1)
        print("installed", sid, "-", head[:90])
