#!/usr/bin/env python3
"""xlate — re-translates the DECLARATIVE part of every indicator of /repo/src/indicators into
  * coq/Generated/Configs.v   (a table the theorems of Properties/C11.v are re-checked against)
  * .work/generated_tables.json (the same table for the Python drivers)
on every run.  It understands a small, fixed set of source shapes and REFUSES (exit 2) on
anything else; it never guesses.  Extracted per indicator file:
  config struct name + public fields with their types, NAME constant, literal of size(),
  every arm of the `set` match (key -> assigned field, and that the arm's error path returns
  Err), the default arm returning Err, the Default literal of every field, whether init starts
  with the validate guard, the arities of every IndicatorResult::new(&[..], &[..]) call,
  the text of validate(), and the serde derive attributes of config and instance structs."""
import json, os, re, sys

REPO = sys.argv[1] if len(sys.argv) > 1 else "/repo"
OUT_V = sys.argv[2] if len(sys.argv) > 2 else "/verif/coq/Generated/Configs.v"
OUT_J = sys.argv[3] if len(sys.argv) > 3 else "/verif/.work/generated_tables.json"


class Refuse(Exception):
    pass


def strip_comments(src):
    src = re.sub(r"//[^\n]*", "", src)
    return re.sub(r"/\*.*?\*/", "", src, flags=re.S)


def balanced(src, start, open_ch="{", close_ch="}"):
    """src[start] == open_ch; returns index after the matching close"""
    depth = 0
    i = start
    while i < len(src):
        c = src[i]
        if c == '"':
            j = i + 1
            while src[j] != '"':
                j += 2 if src[j] == "\\" else 1
            i = j
        elif c == open_ch:
            depth += 1
        elif c == close_ch:
            depth -= 1
            if depth == 0:
                return i + 1
        i += 1
    raise Refuse("unbalanced " + open_ch)


def split_top(s, sep=","):
    parts, depth, cur = [], 0, ""
    i = 0
    while i < len(s):
        c = s[i]
        if c == '"':
            j = i + 1
            while s[j] != '"':
                j += 2 if s[j] == "\\" else 1
            cur += s[i:j + 1]
            i = j + 1
            continue
        if c in "([{<" and not (c == "<" and (i == 0 or s[i - 1] in " =<>&|")):
            depth += 1
        elif c in ")]}>" and not (c == ">" and (s[i - 1] in "-=" or (i + 1 < len(s) and s[i + 1] == "="))) and depth > 0:
            depth -= 1
        if c == sep and depth == 0:
            parts.append(cur.strip())
            cur = ""
        else:
            cur += c
        i += 1
    if cur.strip():
        parts.append(cur.strip())
    return parts


def fn_body(impl, name):
    m = re.search(r"fn\s+%s\s*(<[^>]*>)?\s*\(" % name, impl)
    if not m:
        return None
    b = impl.index("{", m.end())
    e = balanced(impl, b)
    return impl[b + 1:e - 1]


def translate(path):
    src = strip_comments(open(path).read())
    m = re.search(r"impl\s*(?:<[^{]*?>)?\s*IndicatorConfig\s+for\s+(\w+)\s*(?:<[^{]*?>)?\s*\{", src)
    if not m:
        raise Refuse("no `impl IndicatorConfig for` in " + path)
    cfg = m.group(1)
    impl = src[m.end() - 1:balanced(src, m.end() - 1)]
    # --- struct
    ms = re.search(r"((?:#\[[^\]]*\]\s*)*)pub\s+struct\s+%s\s*(?:<[^{]*?>)?\s*\{" % cfg, src)
    if not ms:
        raise Refuse("config struct %s not found" % cfg)
    attrs = ms.group(1)
    body = src[ms.end() - 1:balanced(src, ms.end() - 1)][1:-1]
    fields = []
    for part in split_top(body):
        part = re.sub(r"#\[[^\]]*\]\s*", "", part).strip()
        if not part:
            continue
        mf = re.match(r"(pub\s+)?(\w+)\s*:\s*(.+)$", part, re.S)
        if not mf:
            raise Refuse("field shape %r in %s" % (part, cfg))
        fields.append(dict(name=mf.group(2), public=bool(mf.group(1)), ty=re.sub(r"\s+", "", mf.group(3))))
    # --- NAME
    mn = re.search(r'const\s+NAME\s*:\s*&\'static\s+str\s*=\s*"([^"]*)"\s*;', impl)
    if not mn:
        raise Refuse("NAME of " + cfg)
    # --- size
    sb = fn_body(impl, "size")
    mz = re.fullmatch(r"\s*\(\s*(\d+)\s*,\s*(\d+)\s*\)\s*", sb or "")
    if not mz:
        raise Refuse("size() of %s is not a literal pair: %r" % (cfg, sb))
    size = (int(mz.group(1)), int(mz.group(2)))
    # --- validate
    vb = fn_body(impl, "validate")
    if vb is None:
        raise Refuse("validate of " + cfg)
    validate = re.sub(r"\s+", " ", vb).strip()
    # --- init guard
    ib = fn_body(impl, "init")
    if ib is None:
        raise Refuse("init of " + cfg)
    ibn = re.sub(r"\s+", " ", ib).strip()
    guard_first = bool(re.match(r"if !self\.validate\(\) \{ return Err\(Error::WrongConfig\);? \}", ibn)) or \
        bool(re.match(r"if self\.validate\(\) \{.*\} else \{ Err\(Error::WrongConfig\) \}$", ibn))
    # --- set
    st = fn_body(impl, "set")
    if st is None:
        raise Refuse("set of " + cfg)
    mm = re.search(r"match\s+name\s*\{", st)
    if not mm:
        raise Refuse("set of %s: no `match name`" % cfg)
    mbody = st[mm.end() - 1:balanced(st, mm.end() - 1)][1:-1]
    tail = re.sub(r"\s+", " ", st[balanced(st, mm.end() - 1):]).strip().lstrip(";").strip()
    if tail != "Ok(())":
        raise Refuse("set of %s: unexpected tail %r" % (cfg, tail))
    arms = []
    default_err = False
    for arm in split_top(mbody):
        arm = arm.strip()
        if not arm:
            continue
        ma = re.match(r'"(\w+)"\s*=>\s*match\s+value\.parse\(\)\s*\{(.*)\}\s*$', arm, re.S)
        if ma:
            inner = [re.sub(r"\s+", " ", x).strip() for x in split_top(ma.group(2))]
            errs = [x for x in inner if x.startswith("Err(_)")]
            oks = [x for x in inner if x.startswith("Ok(value)")]
            if len(errs) != 1 or len(oks) != 1 or len(inner) != 2:
                raise Refuse("set arm %r of %s" % (ma.group(1), cfg))
            if not re.fullmatch(r"Err\(_\) => return Err\(Error::ParameterParse\(name\.to_string\(\), value\.to_string\(\)\)\)", errs[0]):
                raise Refuse("set arm %r of %s: error path %r" % (ma.group(1), cfg, errs[0]))
            mo = re.fullmatch(r"Ok\(value\) => self\.(\w+) = value", oks[0])
            if not mo:
                raise Refuse("set arm %r of %s: ok path %r" % (ma.group(1), cfg, oks[0]))
            arms.append(dict(key=ma.group(1), field=mo.group(1)))
            continue
        md = re.match(r"_\s*=>\s*\{?\s*return\s+Err\(Error::ParameterParse\(name\.to_string\(\),\s*value(\.to_string\(\))?\)\);?\s*\}?\s*$", re.sub(r"\s+", " ", arm))
        if md:
            default_err = True
            continue
        raise Refuse("set of %s: unknown arm shape %r" % (cfg, arm[:120]))
    # --- Default
    md = re.search(r"impl\s*(?:<[^{]*?>)?\s*Default\s+for\s+%s\s*(?:<[^{]*?>)?\s*\{" % cfg, src)
    defaults = {}
    if md:
        dimpl = src[md.end() - 1:balanced(src, md.end() - 1)]
        db = fn_body(dimpl, "default")
        ml = re.search(r"Self\s*\{", db)
        if not ml:
            raise Refuse("Default of %s" % cfg)
        lit = db[ml.end() - 1:balanced(db, ml.end() - 1)][1:-1]
        for part in split_top(lit):
            mf = re.match(r"(\w+)\s*:\s*(.+)$", part.strip(), re.S)
            if not mf:
                raise Refuse("Default literal of %s: %r" % (cfg, part))
            defaults[mf.group(1)] = re.sub(r"\s+", " ", mf.group(2)).strip()
    else:
        raise Refuse("no Default for " + cfg)
    # --- result arities in the instance's next
    mi = re.search(r"impl\s*(?:<[^{]*?>)?\s*IndicatorInstance\s+for\s+(\w+)\s*(?:<[^{]*?>)?\s*\{", src)
    if not mi:
        raise Refuse("no IndicatorInstance impl in " + path)
    inst = mi.group(1)
    iimpl = src[mi.end() - 1:balanced(src, mi.end() - 1)]
    arities = []
    for mr in re.finditer(r"IndicatorResult::new\s*\(", iimpl):
        args = iimpl[mr.end() - 1:balanced(iimpl, mr.end() - 1, "(", ")")][1:-1]
        a = split_top(args)
        if len(a) != 2:
            raise Refuse("IndicatorResult::new shape in %s: %r" % (inst, args[:100]))
        ar = []
        for x in a:
            x = x.strip()
            if x.startswith("&["):
                inner = x[2:x.rindex("]")]
            else:
                mv = re.fullmatch(r"&(\w+)", x)
                ml = mv and re.search(r"let\s+%s\s*(?::[^=;]*)?=\s*\[" % mv.group(1), iimpl)
                if not ml:
                    raise Refuse("IndicatorResult::new argument %r in %s is neither an array literal nor a local array" % (x, inst))
                lb = ml.end() - 1
                inner = iimpl[lb:balanced(iimpl, lb, "[", "]")][1:-1]
            ar.append(len(split_top(inner)))
        arities.append(ar)
    if not arities:
        raise Refuse("no IndicatorResult::new in " + inst)
    # --- serde derives
    msi = re.search(r"((?:#\[[^\]]*\]\s*)*)pub\s+struct\s+%s\s*(?:<[^{]*?>)?\s*\{" % inst, src)
    serde_cfg = "Serialize, Deserialize" in attrs.replace("\n", " ")
    serde_inst = bool(msi) and "Serialize, Deserialize" in msi.group(1).replace("\n", " ")
    skip = "serde(skip" in src
    return dict(file=os.path.basename(path), config=cfg, instance=inst, NAME=mn.group(1), fields=fields, size=size,
                validate=validate, guard_first=guard_first, set_arms=arms, set_default_err=default_err,
                defaults=defaults, result_arities=arities, serde_config=serde_cfg, serde_instance=serde_inst,
                serde_skip=skip)


def coq_str(s):
    return '"' + s.replace('"', '""') + '"'


def main():
    d = os.path.join(REPO, "src", "indicators")
    tabs = []
    for f in sorted(os.listdir(d)):
        if not f.endswith(".rs") or f in ("mod.rs", "example.rs"):
            continue
        try:
            tabs.append(translate(os.path.join(d, f)))
        except Refuse as e:
            print("xlate: translation no longer applies: %s" % e)
            return 2
    os.makedirs(os.path.dirname(OUT_V), exist_ok=True)
    os.makedirs(os.path.dirname(OUT_J), exist_ok=True)
    with open(OUT_J, "w") as fh:
        json.dump(tabs, fh, indent=1)
    L = ["(** GENERATED by tools/xlate.py from /repo/src/indicators on every run -- do not edit. *)",
         "From Yata Require Import Base.Prelude Spec.ConfigTable.", "Open Scope string_scope.", "",
         "Definition indicator_tables : list itable := ["]
    rows = []
    for t in tabs:
        fl = "[" + "; ".join("(%s, %s, %s)" % (coq_str(f["name"]), "true" if f["public"] else "false", coq_str(f["ty"])) for f in t["fields"]) + "]"
        al = "[" + "; ".join("(%s, %s)" % (coq_str(a["key"]), coq_str(a["field"])) for a in t["set_arms"]) + "]"
        dl = "[" + "; ".join(coq_str(k) for k in t["defaults"]) + "]"
        rl = "[" + "; ".join("(%d, %d)" % (a[0], a[1]) for a in t["result_arities"]) + "]"
        rows.append("  mkITable %s %s %s %s %s (%d, %d) %s %s %s %s" % (
            coq_str(t["config"]), coq_str(t["NAME"]), fl, al, "true" if t["set_default_err"] else "false",
            t["size"][0], t["size"][1], rl, "true" if t["guard_first"] else "false", dl,
            "true" if (t["serde_config"] and t["serde_instance"] and not t["serde_skip"]) else "false"))
    L.append(";\n".join(rows))
    L.append("].")
    txt = "\n".join(L) + "\n"
    old = open(OUT_V).read() if os.path.exists(OUT_V) else None
    if old != txt:  # keep the timestamp when nothing changed, so make does not rebuild
        with open(OUT_V, "w") as fh:
            fh.write(txt)
    print("xlate: %d indicator tables" % len(tabs))
    return 0


if __name__ == "__main__":
    sys.exit(main())
