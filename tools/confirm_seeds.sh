#!/bin/bash
# Confirms every seeded change under /verif/seeded/_incoming/<P>/mut{A,B}.diff in ONE scratch worktree:
# (1) clean: demo passes; (2) with the change: crate compiles, the 132 lib tests pass, demo FAILS.
# Writes seeded/_incoming/<P>/confirm_<X>.txt ; the worktree is removed at the end.
export CARGO_NET_OFFLINE=true
WT=/tmp/confirm_wt
git -C /repo worktree remove --force $WT 2>/dev/null
git -C /repo worktree add -q --detach $WT HEAD || exit 1
cd $WT
for d in /verif/seeded/_incoming/C*; do
  P=$(basename $d)
  for X in A B; do
    [ -f $d/mut$X.diff ] || continue
    [ -f $d/confirm_$X.txt ] && continue
    git checkout -q -- . ; rm -rf tests; mkdir -p tests; cp $d/demo_mut$X.rs tests/demo.rs
    out=$d/confirm_$X.txt
    { echo "property $P mutation $X  ($(date -u +%FT%TZ))";
      echo "== clean tree: cargo test --offline --test demo"; } > $out
    timeout 1200 cargo test --offline --test demo > /tmp/confirm.log 2>&1; rc_clean=$?
    tail -4 /tmp/confirm.log >> $out; echo "exit=$rc_clean" >> $out
    git apply $d/mut$X.diff >> $out 2>&1 || { echo "PATCH DOES NOT APPLY" >> $out; continue; }
    echo "== with change: cargo test --lib --offline" >> $out
    timeout 1200 cargo test --lib --offline > /tmp/confirm.log 2>&1; rc_lib=$?
    grep -E "^test result|error" /tmp/confirm.log | head -5 >> $out; echo "exit=$rc_lib" >> $out
    echo "== with change: cargo test --offline --test demo" >> $out
    timeout 1200 cargo test --offline --test demo > /tmp/confirm.log 2>&1; rc_mut=$?
    grep -E "^test result|panicked|FAILED" /tmp/confirm.log | head -6 >> $out; echo "exit=$rc_mut" >> $out
    if [ $rc_clean -eq 0 ] && [ $rc_lib -eq 0 ] && [ $rc_mut -ne 0 ]; then echo "CONFIRMED" >> $out; else echo "NOT-CONFIRMED" >> $out; fi
    git checkout -q -- .
  done
done
cd /; git -C /repo worktree remove --force $WT
echo all-done
