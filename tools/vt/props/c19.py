"""C19 — The unsafe_performance feature changes nothing observable and stays in bounds."""
from .. import core
from ..core import T_PANIC
from ..suites import window, numeric, select, glue, indicators as ind
from ..suites.indicators import ICase
from . import c01, c09, c04

COQ_TARGETS = ["Properties/C19.vo", "Exec/WindowRun.vo", "Exec/SelectRun.vo"]
PROP_MODULES = ["Properties.C19"]
HEADER = c04.HEADER
FEAT = ("unsafe_performance",)
RULE = ("the harness is built twice from the same source tree (default, --features unsafe_performance); identical case files -- "
        "Window programs for every capacity 0..4 and phase incl. get/index on empty windows and exhausted iterators, SMM/"
        "MedianAbsDev and the other selection methods on the de Bruijn tie sequence, the numeric methods, snapshot/restore at "
        "every step, all 36 indicators -- are run through both; every transcript on which the default build does not panic must "
        "be bit-identical, and the feature build must not abort (its debug build carries the standard library's "
        "unchecked-access precondition checks); distinct = distinct case lines")
ASSUMPTIONS = ["actual memory safety of the compiled binary is outside the model: the theorem is index arithmetic, the run-time "
               "evidence is the debug-assertion instrumented feature build (ub_checks) not aborting on the suite"]
TRUSTED_EXTRA = ["rustc's debug-build precondition checks of slice::get_unchecked / ptr::copy (used as an out-of-bounds detector)"]


def translate(ctx):
    rc, out = ind.run_xlate()
    if rc != 0:
        ctx.broke("translation", "xlate", out[-2000:])


def builds(ctx):
    return [("debug", ()), ("debug", FEAT)] + ([("release", ()), ("release", FEAT)] if ctx.tier == "thorough" else [])


def run(ctx):
    rng = ctx.rng.fork("c19")
    # model-compared part: Window programs and selection methods (where the feature changes code)
    wcases = window.gen(rng.fork("w"), ctx.tier) + window.gen_safe(rng.fork("ws"), ctx.tier)
    ctx.run_suite("window", wcases, c01.HEADER, theorem="Properties/C19.v (C19_index_in_bounds, ...)")
    scases = [c for c in select.gen_select(rng.fork("s"), ctx.tier) if ctx.tier == "thorough" or c.entry in ("SMM", "MedianAbsDev", "Highest")]
    ctx.run_suite("selection", scases, HEADER, per_shard=8, theorem="Properties/C19.v (C19_smm_indices, C19_smm_copy_ranges)")
    cases = list(wcases) + list(scases)
    cases += numeric.gen_scalar(rng.fork("n"), "quick", ["SMA", "WMA", "EMA", "StDev", "MeanAbsDev", "CCI", "LinReg", "Vidya", "SWMA"])
    cases += [c for c in glue.gen_serde_each(rng.fork("g"), "quick")]
    cases += glue.gen(rng.fork("g2"), "quick", ["history", "peek", "clone"], names=["SMM", "MedianAbsDev", "Past", "SMA", "Highest"])
    # the methods with their own buffers / weights (Conv, VWMA, ADI, TSI): next and peek (a feature-only fast path in an accessor
    # shows only in a bit-exact comparison of the two builds)
    from ..suites.action import Simple
    for c in numeric.gen_other(rng.fork("o"), "quick", ["VWMA", "Conv", "ADI", "TSI"]):
        cases.append(c)
        toks = c.line().split(" ")
        if toks[0] == "method" and toks[1] in ("VWMA", "Conv", "ADI", "TSI") and not c.kind.startswith("ctor"):
            cases.append(Simple(" ".join(toks[:2] + ["peek"] + toks[2:]), None, "peek-" + c.kind, extra={"entry": toks[1]}))
    cases += glue.gen(rng.fork("g3"), "quick", ["peek"], names=["WMA", "EMA", "LinReg", "StDev", "SWMA", "TRIMA", "HMA", "Vidya", "RMA", "DEMA", "TEMA"])
    try:
        tabs = ind.tables()
    except Exception as e:
        tabs = []
        ctx.broke("translation", "tables", repr(e))
    for t in tabs:
        r = rng.fork("i-" + t["config"])
        cs, _ = ind.candles_for(r, 61 if ctx.tier == "quick" else 201)
        for sets in ind.configs(t, r, 1 if ctx.tier == "quick" else 3):
            cases.append(ICase(t["config"], "run", sets, cs[0], cs[1:], kind="indicator"))
    lines = [c.line() for c in cases]
    for profile in (["debug"] + (["release"] if ctx.tier == "thorough" else [])):
        a, ea = core.run_harness_robust(lines, profile, ())
        # the property quantifies over programs on which the DEFAULT build does not panic: only those go to the feature build
        keep = [i for i, x in enumerate(a) if x is not None and T_PANIC not in x and x != [-4]]
        bk, eb = core.run_harness_robust([lines[i] for i in keep], profile, FEAT, max_crashes=40)
        b = [None] * len(lines)
        for i, y in zip(keep, bk):
            b[i] = y
        nd = 0
        for c, x, y in zip(cases, a, b):
            ctx.evaluations += 1
            if x is None:
                ctx.broke("harness", "feature-differential", "missing default transcript (%s)" % profile, c.meta())
                continue
            if T_PANIC in x or x == [-4]:
                continue
            if y is None:
                ctx.broke("harness", "feature-differential", "missing feature-build transcript (%s)" % profile, c.meta())
                continue
            if T_PANIC in x or x == [-4]:
                continue    # the property only speaks about programs on which the default build does not panic
            if y == [-4]:
                ctx.fail_input(dict(c.meta(), profile=profile), "the unsafe_performance build ABORTED on this case (unchecked access out of bounds caught by the debug precondition check); default build: %s" % ("panics" if T_PANIC in x else "completes"), y)
                continue
            if T_PANIC in x or x == [-4]:
                continue    # the property only speaks about programs on which the default build does not panic
            if x != y:
                k = core.first_diff(x, y)
                nd += 1
                ctx.fail_input(dict(c.meta(), profile=profile), "unsafe_performance build differs from the default build at transcript slot %d: %s vs %s" % (
                    k, y[k] if k < len(y) else None, x[k] if k < len(x) else None), y, x)
        ctx.suites.append(dict(name="feature-differential-" + profile, cases=len(cases), disagreements=nd, oracle_failures=nd,
                               kinds={}, profile=profile, features=list(FEAT), seconds=0))
        ctx.log("feature differential (%s): %d cases, %d differences" % (profile, len(cases), nd))
    ctx.extra["builds_compared"] = ["default", "unsafe_performance"]


def replay(ctx, path):
    import json
    with open(path) as f:
        rec = json.load(f)
    core.build_harness("debug", ())
    core.build_harness("debug", FEAT)
    c = rec.get("case") or {}
    if c.get("line"):
        a, _ = core.run_harness_robust([c["line"]], "debug", ())
        b, _ = core.run_harness_robust([c["line"]], "debug", FEAT)
        print("case:", c["line"][:300])
        print("default build:           ", (a[0] or [])[:40])
        print("unsafe_performance build:", (b[0] or [])[:40])
    return 0
