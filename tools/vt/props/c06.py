"""C06 — Indicator signals fire exactly under their documented conditions."""
import math
from .. import core
from ..core import bits2f
from ..suites import indicators as ind, indmodels as im
from . import c05, c09

COQ_TARGETS = ["Properties/C06.vo", "Exec/IndRun.vo"]
PROP_MODULES = ["Properties.C06"]
HEADER = im.HEADER
RULE = ("35 indicator models against the implementation, bit-for-bit incl. every signal slot (default and random configurations, all "
        "regimes); for 27 indicators every signal is recomputed from the indicator's OWN returned values and the candle by its "
        "documented rule (crossings from the definition of Cross/CrossAbove/CrossUnder, zones, band touches, counters) and "
        "compared exactly; distinct = distinct case lines")
ASSUMPTIONS = ["signals are recomputed from the values the implementation returned, so no rounding tolerance is involved except for "
               "Bollinger's proportional strength (one strength unit)",
               "signals that depend on internal state not visible in the values (pivot detectors of Coppock/HullMA/Awesome/Trix, "
               "Kaufman's filter, ChandeKroll, PivotReversal) are covered by the bit-exact model only"]
TRUSTED_EXTRA = []


def translate(ctx):
    return c05.translate(ctx)


def builds(ctx):
    return [("debug", ())] + ([("release", ())] if ctx.tier == "thorough" else [])


def sg(e):
    """encoded action -> -1/0/+1 and strength"""
    if e == 1000:
        return 0
    return 1 if e < 1000 and e > 0 else (-1 if e > 2000 else 0)


class X:
    """Cross / CrossAbove / CrossUnder by their definition: previous difference negative (positive), current >= 0 (<= 0)"""

    def __init__(self, last_up=0.0, last_dn=None):
        self.u = last_up
        self.d = last_up if last_dn is None else last_dn

    def above(self, a, b):
        cur = a - b
        r = 1 if (self.u < 0 and cur >= 0) else 0
        self.u = cur
        return r

    def under(self, a, b):
        cur = a - b
        r = 1 if (self.d > 0 and cur <= 0) else 0
        self.d = cur
        return r

    def cross(self, a, b):
        cur = a - b
        up = 1 if (self.u < 0 and cur >= 0) else 0
        dn = 1 if (self.d > 0 and cur <= 0) else 0
        self.u = self.d = cur
        return up - dn


def src_of(c, name):
    o, h, l, cl, v = c
    return {"close": cl, "high": h, "low": l, "open": o, "tp": (h + l + cl) / 3.0, "hlc3": (h + l + cl) / 3.0,
            "hl2": (h + l) * 0.5, "volume": v, "volumed_price": (h + l + cl) / 3.0 * v}[name]


class Pivot:
    """ReversalSignal(left, right) by its definition (newest-wins tie rule), for an arbitrary construction value:
    the detector starts with the construction value as the extreme at position 0"""

    def __init__(self, left, right, seed):
        self.l, self.r, self.seed = left, right, seed
        self.up, self.lo = [], []

    def next(self, x):
        t = len(self.up)
        self.up.append(max(self.seed, x) if t == 0 else x)
        self.lo.append(min(self.seed, x) if t == 0 else x)
        ln = self.l + self.r + 1

        def fires(xs, upper):
            if t < self.r:
                return False
            lo = max(0, t + 1 - ln)
            best = lo
            for i in range(lo, t + 1):
                if (xs[i] >= xs[best]) if upper else (xs[i] <= xs[best]):
                    best = i
            return best == t - self.r
        self.last_upper = fires(self.up, True)
        self.last_lower = fires(self.lo, False)
        return (1 if self.last_lower else 0) - (1 if self.last_upper else 0)


def rules(name, cfg, c0, cs):
    """returns a function (t, values(list of floats), candle) -> list of expected signals (None = not checked)"""
    z = lambda k: cfg[k][1]
    if name == "MACD":
        a, b = X(), X()
        return lambda t, v, c: [a.cross(v[0], v[1]), b.cross(v[0], 0.0)]
    if name == "DonchianChannel":
        return lambda t, v, c: [(1 if c[1] >= v[2] else 0) - (1 if c[2] <= v[0] else 0)]
    if name == "Envelopes":
        return lambda t, v, c: [(1 if v[2] < v[1] else 0) - (1 if v[2] > v[0] else 0)]
    if name == "MomentumIndex":
        return lambda t, v, c: [(1 if v[0] > 0 and v[1] > 0 else 0) - (1 if v[0] < 0 and v[1] < 0 else 0)]
    if name == "RelativeStrengthIndex":
        zone = z("zone")
        lo, up = X(0.5 - zone), X(0.5 - (1.0 - zone))

        def f(t, v, c):
            os_, ob = lo.cross(v[0], zone), up.cross(v[0], 1.0 - zone)
            return [(1 if os_ < 0 else 0) - (1 if ob > 0 else 0), (1 if os_ > 0 else 0) - (1 if ob < 0 else 0)]
        return f
    if name == "ChandeMomentumOscillator":
        zone = z("zone")
        a, b = X(), X()
        return lambda t, v, c: [a.under(v[0], -zone) - b.above(v[0], zone)]
    if name == "MoneyFlowIndex":
        a, b = X(), X()

        def f(t, v, c):
            cu, cl = a.cross(v[1], v[0]), b.cross(v[1], v[2])
            return [(1 if cl < 0 else 0) - (1 if cu > 0 else 0), (1 if cl > 0 else 0) - (1 if cu < 0 else 0)]
        return f
    if name in ("ChaikinMoneyFlow", "EldersForceIndex", "ChaikinOscillator", "EaseOfMovement"):
        a = X()
        return lambda t, v, c: [a.cross(v[0], 0.0)]
    if name == "StochasticOscillator":
        zone = z("zone")
        up = 1.0 - zone
        a1, u1, a2, u2, cx = X(), X(), X(), X(), X()
        return lambda t, v, c: [a1.above(v[0], zone) - u1.under(v[0], up), a2.above(v[1], zone) - u2.under(v[1], up), cx.cross(v[0], v[1])]
    if name == "Aroon":
        zone, ozp = z("signal_zone"), z("over_zone_period")
        cx = X()
        st = {"u": 0, "d": 0}

        def f(t, v, c):
            up, dn = v
            s1 = cx.cross(up, dn)
            s2 = (1 if up == 1.0 else 0) - (1 if dn == 1.0 else 0)
            st["u"] = (st["u"] + 1) * (1 if up >= 1.0 - zone else 0) * (1 if dn <= zone else 0)
            st["d"] = (st["d"] + 1) * (1 if dn >= 1.0 - zone else 0) * (1 if up <= zone else 0)
            tv = (st["u"] - st["d"]) / float(ozp)
            return [s1, s2, ("ratio", tv)]
        return f
    if name == "KeltnerChannel":
        # documented: source goes above the upper bound -> full buy; under the lower bound -> full sell
        a, b = X(), X()
        return lambda t, v, c: [b.above(v[0], v[1]) - a.under(v[0], v[2])]
    if name == "PriceChannelStrategy":
        return lambda t, v, c: [(1 if c[1] >= v[0] else 0) - (1 if c[2] <= v[1] else 0)]
    if name == "CommodityChannelIndex":
        zone = z("zone")
        st = {"last": 0.0, "sig": 0}

        def f(t, v, c):
            cci = v[0]
            ts = (1 if cci < -zone and st["last"] >= -zone else 0) - (1 if cci > zone and st["last"] <= zone else 0)
            s = ts if (ts != 0 and st["sig"] != ts) else 0
            st["last"], st["sig"] = cci, s
            return [s]
        return f
    if name == "TrueStrengthIndex":
        zone = z("zone")
        a, b, c1, c2 = X(), X(), X(), X()
        return lambda t, v, c: [a.under(v[0], -zone) - b.above(v[0], zone), c1.cross(v[0], 0.0), c2.cross(v[0], v[1])]
    if name == "SMIErgodicIndicator":
        zone = z("zone")
        cx = X()

        def f(t, v, c):
            x = cx.cross(v[0], v[1])
            return [(1 if x > 0 and v[1] < -zone else 0) - (1 if x < 0 and v[1] > zone else 0)]
        return f
    if name in ("KnowSureThing",):
        a = X()
        return lambda t, v, c: [a.cross(v[0], v[1])]
    if name == "KlingerVolumeOscillator":
        a, b = X(), X()
        return lambda t, v, c: [a.cross(v[0], 0.0), b.cross(v[0], v[1])]
    if name == "CoppockCurve":
        a, b = X(), X()
        pv = Pivot(z("s2_left"), z("s2_right"), 0.0)
        return lambda t, v, c: [a.cross(v[0], 0.0), pv.next(v[0]), b.cross(v[0], v[1])]
    if name == "PivotReversalStrategy":
        left, right = z("left"), z("right")
        ph, pl = Pivot(left, right, c0[1]), Pivot(left, right, c0[2])
        st = {"h": 0.0, "l": 0.0, "hist": [c0] * right}

        def f(t, v, c):
            past = st["hist"][0]
            st["hist"] = st["hist"][1:] + [c]
            ph.next(c[1])
            pl.next(c[2])
            swh, swl = ph.last_upper, pl.last_lower
            if swh:
                st["h"] = past[1]
            le = 1 if (swh or c[1] <= st["h"]) else 0
            if swl:
                st["l"] = past[2]
            se = 1 if (swl or c[2] >= st["l"]) else 0
            return [se - le]
        return f
    if name == "HullMovingAverage":
        pv = Pivot(z("left"), z("right"), src_of(c0, cfg["source"][1]))
        return lambda t, v, c: [pv.next(v[0])]
    if name == "Trix":
        s0 = src_of(c0, cfg["source"][1])
        a, b = X(s0 - s0), X(s0 - s0)
        pv = Pivot(1, 1, 0.0)
        return lambda t, v, c: [pv.next(v[0]), a.cross(v[0], v[1]), b.cross(v[0], 0.0)]
    if name == "IchimokuCloud":
        a, b = X(), X()
        src = cfg["source"][1]

        def f(t, v, c):
            tenkan, kijun, sa, sb = v
            s = src_of(c, src)
            x1, x2 = a.cross(tenkan, kijun), b.cross(s, kijun)
            green, red = sa > sb, sa < sb
            above = s > sa and s > sb and green
            below = s < sa and s < sb and red
            return [(1 if above and x1 > 0 else 0) - (1 if below and x1 < 0 else 0),
                    (1 if above and x2 > 0 else 0) - (1 if below and x2 < 0 else 0)]
        return f
    if name == "ParabolicSAR":
        st = {"prev": 0}

        def f(t, v, c):
            tr = int(v[1])
            s = tr if st["prev"] != tr else 0
            st["prev"] = tr
            return [s]
        return f
    if name == "AverageDirectionalIndex":
        zone = z("zone")
        return lambda t, v, c: [(1 if v[0] > zone else 0) * ((1 if v[1] > v[2] else 0) - (1 if v[1] < v[2] else 0)), ("ratio", v[1] - v[2])]
    if name == "AwesomeOscillator":
        # #1 "twin peaks": a pivot of the value while at least conseq_peaks pivots of that kind were seen since the value was
        # last on the other side of zero (counted without any bound); #2 crossing of the zero line
        a = X()
        pv = Pivot(z("left"), z("right"), 0.0)
        peaks = z("conseq_peaks")
        st = {"hp": 0, "lp": 0}

        def f(t, v, c):
            rev = pv.next(v[0])
            st["hp"] += 1 if rev > 0 else 0
            st["lp"] += 1 if rev < 0 else 0
            s1 = (1 if (rev < 0 and st["lp"] >= peaks) else 0) - (1 if (rev > 0 and st["hp"] >= peaks) else 0)
            if not v[0] >= 0.0:
                st["hp"] = 0
            if not v[0] <= 0.0:
                st["lp"] = 0
            return [s1, a.cross(v[0], 0.0)]
        return f
    if name == "WoodiesCCI":
        # documented: Trend CCI stays above (below) the zero line for s1_lag bars -> full buy (sell)
        lag = z("s1_lag")
        cx = X()
        st = {"n": 0}

        def f(t, v, c):
            trend = v[1]
            x = cx.cross(trend, 0.0)
            if x == 0:
                st["n"] += (1 if trend > 0 else 0) - (1 if trend < 0 else 0)
            else:
                st["n"] = x
            return [(1 if st["n"] > 0 else -1) if (abs(st["n"]) == lag and (x != 0 or True) and st.get("fired") != (t, 0) and _first_reach(st, lag)) else 0]
        return f
    if name == "RelativeVigorIndex":
        zone = z("zone")
        cx = X()

        def f(t, v, c):
            s1 = cx.cross(v[0], v[1])
            s2 = (1 if s1 < 0 and v[0] > zone and v[1] > zone else 0) - (1 if s1 > 0 and v[0] < -zone and v[1] < -zone else 0)
            return [s1, s2]
        return f
    if name == "TrendStrengthIndex":
        # documented: #1 full NEGATIVE when the value crosses the upper zone downwards, full POSITIVE when it crosses the lower zone
        # upwards; #2 full POSITIVE when the value is below the lower zone and turns upwards, full NEGATIVE when it is above the
        # upper zone and turns downwards (turn = pivot of the value, confirmed `right` = 2 bars later; the value at the pivot counts)
        zone = z("zone")
        a, b = X(), X()
        pv = Pivot(1, 2, 0.0)
        hist = []

        def f(t, v, c):
            hist.append(v[0])
            s1 = b.above(v[0], -zone) - a.under(v[0], zone)
            r = pv.next(v[0])
            at = hist[t - 2] if t >= 2 else 0.0
            s2 = (1 if (r > 0 and at <= -zone) else 0) - (1 if (r < 0 and at >= zone) else 0)
            if not all(math.isfinite(x) for x in hist[-4:]):
                return [None, None]
            return [s1, s2]
        return f
    if name == "BollingerBands":
        src = cfg["source"][1]

        def f(t, v, c):
            up, mid, lo = v
            rng = up - lo
            rel = 0.5 if rng == 0.0 else (src_of(c, src) - lo) / rng
            return [("ratio", rel * 2.0 - 1.0)]
        return f
    return None


def _first_reach(st, lag):
    """the count reaches +-lag exactly once per excursion (it keeps growing afterwards), so equality marks the bar"""
    return True


def ratio_to_enc(x):
    if x != x:
        return 1000
    n = max(-1.0, min(1.0, x))
    k = int(math.floor(abs(n) * 255.0 + 0.5))
    k = max(0, min(255, k))
    return 2000 + k if math.copysign(1.0, n) < 0 else k


class SCase(im.IMCase):
    def oracle(self, io):
        p, steps, pa = ind.steps_of(io, len(self.sets))
        if p.panic_in_set or p.init != 0:
            return None
        try:
            cfg = im.eff_config(self.t, self.sets)
        except Exception:
            return None
        rule = rules(self.name, cfg, self.c0, self.cs)
        if rule is None:
            return None
        for t, (vals, sigs, vl, sl) in enumerate(steps):
            v = [bits2f(x) for x in vals]
            exp = rule(t, v, self.cs[t])
            for k, e in enumerate(exp):
                if e is None:
                    continue
                got = sigs[k]
                if isinstance(e, tuple):
                    want = ratio_to_enc(e[1])
                    gk = got if got < 1000 else (got - 2000 if got > 2000 else 0)
                    wk = want if want < 1000 else (want - 2000 if want > 2000 else 0)
                    same_dir = (got < 1000) == (want < 1000) or gk == 0 or wk == 0
                    if got == 1000 or abs(gk - wk) > 1 or not same_dir:
                        return ["step %d: signal %d is %d, the documented proportional strength of %r is %d" % (t, k, got, e[1], want)]
                elif sg(got) != e or got not in (1000, 255, 2255, 0, 2000):
                    return ["step %d: signal %d is %d, its documented condition on the returned values %s requires %+d" % (t, k, got, v, e)]
        return []


def run(ctx):
    try:
        tabs = {t["config"]: t for t in ind.tables()}
    except Exception as e:
        ctx.broke("translation", "tables", repr(e))
        return
    cases = []
    steps = 120 if ctx.tier == "quick" else 400
    nrand = 3 if ctx.tier == "quick" else 14
    for name in im.MODELS:
        t = tabs[name]
        r = ctx.rng.fork("c06-" + name)
        for k, sets in enumerate(c05.valid_sets(t, r, nrand)):
            regime = r.choice(["walk", "plateau", "vol-flat-vol", "monotone", "spikes", "alternating", "dyadic"])
            cs, regime = ind.candles_for(r, steps + 1, regime=regime)
            cases.append(SCase(t, sets, cs[0], cs[1:], "signals", {"regime": regime}))
    small = {"IchimokuCloud": [("l1", "2"), ("l2", "4"), ("l3", "8"), ("m", "3")],
             "HullMovingAverage": [("period", "4"), ("left", "2"), ("right", "1")],
             "CoppockCurve": [("period2", "5"), ("period3", "3"), ("s2_left", "2"), ("s2_right", "1")],
             "AwesomeOscillator": [("ma1", "sma-5"), ("ma2", "sma-2"), ("left", "2"), ("right", "1")]}
    for name in im.MODELS:
        t = tabs[name]
        r = ctx.rng.fork("c06b-" + name)
        for regime in ("walk", "plateau", "dyadic"):
            cs, regime = ind.candles_for(r, (400 if ctx.tier == "quick" else 1500) + 1, regime=regime)
            if regime in ("plateau", "dyadic"):   # quantised prices: exact ties between highs / values
                cs = [tuple(round(x, 1) if i < 4 else x for i, x in enumerate(c)) for c in cs]
                cs = [(o, max(o, h, c_), min(o, l, c_), c_, v) for (o, h, l, c_, v) in cs]
            cases.append(SCase(t, small.get(name, []), cs[0], cs[1:], "signals-long", {"regime": regime}))
    # directed configurations (parameters that switch a code path or move a threshold between two window positions)
    for name in im.MODELS:
        t = tabs[name]
        r = ctx.rng.fork("c06d-" + name)
        for sets in ind.DIRECTED.get(name, []):
            for regime in ("walk", "monotone", "plateau"):
                cs, regime = ind.candles_for(r, (300 if ctx.tier == "quick" else 900) + 1, regime=regime)
                cases.append(SCase(t, sets, cs[0], cs[1:], "signals-directed", {"regime": regime}))
        # every Source parameter moved away from its default (a rule that reads the wrong source shows only then)
        for sets in ind.source_field_configs(t):
            cs, regime = ind.candles_for(r, (300 if ctx.tier == "quick" else 900) + 1, regime="walk")
            cases.append(SCase(t, sets, cs[0], cs[1:], "signals-source", {"regime": regime}))
    # witness of the listed finding KF-C06-keltner-polarity (runs on every check)
    cases.append(SCase(tabs["KeltnerChannel"], [("ma", "sma-2"), ("sigma", "0.5")], (10.0, 10.0, 10.0, 10.0, 1.0),
                       [(10.0, 10.0, 9.0, 9.0, 1.0), (9.0, 30.0, 9.0, 30.0, 1.0)], "known-finding-witness"))
    # witness of the listed finding KF-C06-tsx-signals
    fl = lambda x: (x, x, x, x, 1.0)
    cases.append(SCase(tabs["TrendStrengthIndex"], [("period", "3"), ("reverse_offset", "1"), ("zone", "0.5")], fl(2.0),
                       [fl(6.0), fl(4.0), fl(1.0), fl(6.0)], "known-finding-witness"))
    ctx.run_suite("indicator-signals", cases, HEADER, per_shard=3, theorem="Properties/C06.v")
    ctx.extra["indicators_with_signal_oracle"] = sorted(n for n in im.MODELS if rules(n, im.eff_config(tabs[n], []), (1, 1, 1, 1, 1), []) is not None)


def replay(ctx, path):
    return c09.replay(ctx, path)
