"""C18 — Candle helpers satisfy their textbook identities; text forms round-trip."""
import math, re
from .. import core, gens
from ..core import f2bits, bits2f, coq_float, T_ERR, T_PANIC
from ..suites import texts
from ..suites.action import Simple
from ..suites.numeric import cq_candle, hex_candle, finite, U
from ..suites.indicators import MA_KINDS
from . import c09, c10

COQ_TARGETS = ["Properties/C18.vo", "Exec/TextRun.vo"]
PROP_MODULES = ["Properties.C18"]
HEADER = c10.HEADER
RULE = ("candles with every field drawn from a special-value set (NaN, +-inf, +-0, negative, subnormal, huge) and from valid "
        "streams, every previous close; all helpers against the bit-exact model and against the textbook formulas; validate "
        "against the property's reading; triples of candles for associativity of +; Source/MA texts: every kind and length "
        "0..255, case/whitespace variants, out-of-range and malformed texts; distinct = distinct case lines")
ASSUMPTIONS = ["identities are proved in exact arithmetic; on binary64 the helpers are compared with the formulas within 8 ulp-scaled error",
               "associativity on binary64: exact in open/high/low/close, volume within rounding of the sum"]
TRUSTED_EXTRA = []
SPECIAL = [math.nan, math.inf, -math.inf, 0.0, -0.0, -1.0, 5e-324, 1e308, 1e-300, 1.0, 100.0, 7.25]


def builds(ctx):
    return [("debug", ())]


def expected_validate(c):
    o, h, l, cl, v = c
    if not all(finite(x) for x in (o, h, l, cl)):
        return 0
    if not (o > 0 and h > 0 and l > 0 and cl > 0):
        return 0
    if not (l <= cl <= h and l <= o <= h):
        return 0
    if not (v != v or v >= 0):
        return 0
    return 1


def helper_oracle(c, pc):
    def f(io):
        r = []
        o, h, l, cl, v = c
        tp, hl2, ohlc4, clv, trc, tr, vp = [bits2f(x) for x in io[:7]]
        val, rising, falling = io[7:10]
        srcs = [bits2f(x) for x in io[10:18]]
        if val != expected_validate(c):
            r.append("validate(%r) = %d, the candle %s ordered/positive/finite with non-negative or absent volume" % (
                c, val, "IS" if expected_validate(c) else "is NOT"))
        if all(finite(x) for x in (o, h, l, cl)) and max(abs(x) for x in (o, h, l, cl)) < 1e300:
            m = max(abs(x) for x in (o, h, l, cl))
            tol = 16 * U * m + 5e-324
            for name, got, exp in (("tp", tp, (h + l + cl) / 3), ("hl2", hl2, (h + l) / 2), ("ohlc4", ohlc4, (o + h + l + cl) / 4)):
                if not abs(got - exp) <= tol:
                    r.append("%s = %r, formula gives %r" % (name, got, exp))
            if h == l:
                if clv != 0:
                    r.append("clv on a zero range = %r, expected 0" % clv)
            elif l <= cl <= h and (h - l) > 1e-290:
                exp = ((cl - l) - (h - cl)) / (h - l)
                if not abs(clv - exp) <= 64 * U * m / (h - l) + 1e-15 or not (-1 - 1e-12 <= clv <= 1 + 1e-12):
                    r.append("clv = %r, ((close-low)-(high-close))/(high-low) = %r" % (clv, exp))
            if finite(pc) and h >= l and abs(pc) < 1e300:
                exp = max(h - l, abs(h - pc), abs(l - pc))
                if not abs(trc - exp) <= 16 * U * max(m, abs(pc)) + 5e-324 or trc != tr:
                    r.append("tr_close = %r (tr = %r), max(high-low, |high-pc|, |low-pc|) = %r" % (trc, tr, exp))
            want = [cl, h, l, tp, hl2, v, vp, o]
            for k, (a, b) in enumerate(zip(srcs, want)):
                if not (a == b or (a != a and b != b)):
                    r.append("source(kind %d) = %r, expected %r" % (k, a, b))
            if finite(v) and finite(tp) and abs(tp * v) < 1e300 and not abs(vp - tp * v) <= 4 * U * abs(tp * v) + 5e-324:
                r.append("volumed_price = %r, tp*volume = %r" % (vp, tp * v))
        if rising != (1 if cl > o else 0) or falling != (1 if cl < o else 0):
            r.append("is_rising/is_falling = %d/%d for open %r close %r" % (rising, falling, o, cl))
        if io[18] != 1:
            r.append("the tuple/array OHLCV impls disagree with Candle")
        return r
    return f


def add_oracle(a, b, c):
    def f(io):
        x, y = io[:5], io[5:10]
        r = []
        if x[:4] != y[:4]:
            r.append("(a+b)+c and a+(b+c) differ in open/high/low/close: %s vs %s" % ([bits2f(v) for v in x[:4]], [bits2f(v) for v in y[:4]]))
        vx, vy = bits2f(x[4]), bits2f(y[4])
        tot = abs(a[4]) + abs(b[4]) + abs(c[4])
        if finite(vx) and finite(vy) and not abs(vx - vy) <= 4 * U * tot:
            r.append("volume of (a+b)+c = %r, of a+(b+c) = %r" % (vx, vy))
        ab = io[10:15]
        exp = [a[0], max(a[1], b[1]), min(a[2], b[2]), b[3]]
        got = [bits2f(v) for v in ab[:4]]
        if all(finite(v) for v in exp) and got != exp:
            r.append("a+b = %s, expected first open / highest high / lowest low / last close %s" % (got, exp))
        return r
    return f


MA_RE = re.compile(r"^(%s)-(\+?[0-9]+)$" % "|".join(MA_KINDS))
SRC_WS = set(" \t\n\x0b\x0c\r\x85\xa0                　")
SRC_MAP = {"close": 0, "high": 1, "low": 2, "tp": 3, "hlc3": 3, "hl2": 4, "volume": 5, "volumed_price": 6, "open": 7}


def text_oracle(kind, s):
    def f(io):
        if io and io[0] == T_PANIC:
            return ["%s::from_str panicked on %r" % (kind, s)]
        if kind == "ma":
            m = MA_RE.match(s) if s.isascii() else None
            exp = None
            if m and int(m.group(2)) <= 255:
                exp = [0, MA_KINDS_ORDER.index(m.group(1)), int(m.group(2))]
            if exp is None and io[0] == 0:
                return ["MA::from_str accepted %r, which is not the text of a moving-average constructor (parsed kind %d length %d)" % (s, io[1], io[2])]
            if exp is not None and io != exp:
                return ["MA::from_str(%r) = %s, expected %s" % (s, io, exp)]
        else:
            t = "".join(chr(ord(c) + 32) if "A" <= c <= "Z" else c for c in s)
            a, b = 0, len(t)
            while a < b and t[a] in SRC_WS:
                a += 1
            while b > a and t[b - 1] in SRC_WS:
                b -= 1
            exp = SRC_MAP.get(t[a:b])
            if exp is None and io[0] == 0:
                return ["Source::from_str accepted %r" % s]
            if exp is not None and io != [0, exp]:
                return ["Source::from_str(%r) = %s, expected kind %d" % (s, io, exp)]
        return []
    return f


# order of harness ma_code
MA_KINDS_ORDER = ["sma", "wma", "hma", "rma", "ema", "dma", "dema", "tma", "tema", "wsma", "smm", "swma", "trima", "linreg", "vidya"]


def run(ctx):
    r = ctx.rng.fork("c18")
    cases = []
    n = 300 if ctx.tier == "quick" else 3000
    valid = []
    for _k in range(24):   # many streams: every scale (2^-60 .. 1e12) and regime appears
        part, _ = gens.candles(r, max(4, n // 24))
        valid += part
    for _k in range(n // 10):  # tiny absolute ranges at ordinary and tiny scales
        sc = r.choice([1.0, 1e-17, 1e-15, 2.0 ** -60, 1e5])
        l = sc * (1 + r.unit()); h = l + sc * r.choice([1e-16, 3e-16, 1e-12, 0.0, 2e-16]) * (1 + r.unit()); cl = l + (h - l) * r.choice([0.0, 0.25, 0.5, 0.75, 1.0])
        cl = min(max(cl, l), h)
        valid.append((cl, h, l, cl, float(r.range(0, 100))))
    cands = []
    for c in valid:
        cands.append((c, r.choice([c[3], c[1], c[2], c[3] * 1.1, c[3] * 0.5, (c[1] + c[2]) / 2])))
    for i in range(n):
        base = list(r.choice(valid))
        for k in range(r.range(1, 3)):
            base[r.below(5)] = r.choice(SPECIAL)
        cands.append((tuple(base), r.choice(SPECIAL + [base[3]])))
    for i in range(n // 3):  # ordered but with open outside, equal fields, zero range
        c = list(r.choice(valid))
        w = r.below(4)
        if w == 0:
            c[0] = c[1] * 1.5
        elif w == 1:
            c[0] = c[2] * 0.5
        elif w == 2:
            c[1] = c[2] = c[0] = c[3]
        else:
            c[1], c[2] = c[2], c[1]
        cands.append((tuple(c), c[3]))
    for c, pc in cands:
        line = "candle helpers %s %016x" % (hex_candle(c), f2bits(pc))
        term = "candle_helpers %s %s" % (cq_candle(c), coq_float(pc))
        cs = Simple(line, term, "helpers", helper_oracle(c, pc), exact=False, extra={"entry": "OHLCV"})
        cs.zero_loose = True
        cases.append(cs)
    for i in range(n // 2):
        a, b, c = r.choice(valid), r.choice(valid), r.choice(valid)
        if r.chance(0.2):
            a = (a[0], a[1], a[2], a[3], r.choice([0.1, 1e17, 0.3, 1e-3]))
        line = "candle add %s %s %s" % (hex_candle(a), hex_candle(b), hex_candle(c))
        term = "candle_add3 %s %s %s" % (cq_candle(a), cq_candle(b), cq_candle(c))
        cs = Simple(line, term, "add-assoc", add_oracle(a, b, c), exact=False, extra={"entry": "Candle+"})
        cs.zero_loose = True
        cases.append(cs)
    ctx.run_suite("candle-helpers", cases, HEADER, per_shard=150, theorem="Properties/C18.v (C18_clv, C18_true_range, C18_validate, C18_add_assoc)")
    # ---- texts
    tcases = texts.gen(ctx.rng, ctx.tier)
    seen = set(c.extra["text"] for c in tcases if c.extra["entry"] == "ma")
    for k in MA_KINDS_ORDER:
        for ln in list(range(0, 256, 1 if ctx.tier == "thorough" else 5)) + [255, 256, 257, 300, 511, 512, 65535, 65536, 4294967296]:
            s = "%s-%d" % (k, ln)
            if s not in seen:
                tcases.append(texts.text_case("ma", s, "ma-roundtrip"))
    for c in tcases:
        c.oracle = text_oracle(c.extra["entry"], c.extra["text"])
    ctx.run_suite("texts", tcases, HEADER, per_shard=300, theorem="Properties/C18.v (C18_ma_text_roundtrip, C18_ma_parse_exact, C18_source_text_roundtrip)")
    # textual form of every Source parses back to it (implementation side)
    sc = Simple("text source_str", "[]", "source-roundtrip", None, exact=False, extra={"entry": "Source"})
    impl, _ = ctx.run_suite("source-to-text", [sc], HEADER, model=False, theorem="C18_source_text_roundtrip")
    io = impl[0] or []
    chunks, cur = [], []
    for v in io:
        if v == -77:
            chunks.append(cur)
            cur = []
        else:
            cur.append(v)
    for k, ch in enumerate(chunks):
        if len(ch) < 3 or ch[0] != 1 or ch[1] != k or ch[2] != k:
            ctx.fail_input(sc.meta(), "textual form of Source kind %d (%r) does not parse back to it: %s" % (k, bytes(ch[3:]).decode("ascii", "replace"), ch[:3]), io)
    if len(chunks) != 8:
        ctx.fail_input(sc.meta(), "source_str transcript malformed", io)


def replay(ctx, path):
    return c09.replay(ctx, path)
