"""C15 — Moving averages are averages: affine-equivariant, range-preserving, linear."""
import math
from .. import core, gens
from ..core import f2bits, bits2f, T_PANIC, T_ERR
from ..suites import numeric
from ..suites.action import Simple
from ..suites.numeric import K, U, finite
from . import c09, c10

COQ_TARGETS = ["Properties/C15.vo", "Exec/DefRun.vo"]
PROP_MODULES = ["Properties.C15"]
HEADER = c10.HEADER
KINDS = ["sma", "wma", "hma", "rma", "ema", "dma", "dema", "tma", "tema", "wsma", "smm", "swma", "trima", "linreg", "vidya"]
CONVEX = {"sma", "wma", "swma", "trima", "ema", "dma", "tma", "rma", "wsma", "smm", "vidya"}
LINEAR = {"sma", "wma", "swma", "trima", "ema", "dma", "tma", "rma", "wsma", "hma", "linreg", "dema", "tema"}
GAIN = {"hma": 8, "linreg": 8, "dema": 4, "tema": 8}
RULE = ("every MA kind of the MA constructor (15) plus Conv and VWMA: runs on x, on a*x+b with dyadic a (negative included) and b so the map "
        "is exact, on pairs x, y, x+y (dyadic) for superposition, range containment for the non-overshooting kinds, and the impulse "
        "response for EVERY length 1..254 against the documented weight profile; distinct = distinct case lines")
ASSUMPTIONS = ["relations are required within the rounding allowance of DESIGN.md 5 applied to the relation",
               "Vidya's affine/range behaviour depends on its |CMO| factor staying in [0,1]; steps where the two window sums are "
               "ill-conditioned are exempt (see KF-C03-vidya-residue)"]
TRUSTED_EXTRA = []


def builds(ctx):
    return [("debug", ())]


def ma_line(k, n, x0, xs):
    return "text ma_init %d %d %016x %d %s" % (k, n, f2bits(x0), len(xs), " ".join("%016x" % f2bits(x) for x in xs))


def lens_for(kind):
    lo = 2 if kind in ("hma", "linreg") else 1
    hi = 127 if kind == "wsma" else 254
    return lo, hi


def weights(kind, n, steps):
    """documented impulse response (input 1 at step 0, zeros after, seeded with 0) for the linear kinds"""
    if kind == "sma":
        return [1.0 / n if k < n else 0.0 for k in range(steps)]
    if kind == "wma":
        S = n * (n + 1) / 2
        return [(n - k) / S if k < n else 0.0 for k in range(steps)]
    if kind == "swma":
        ll, rl = (n + 1) // 2, n // 2
        S = ll * (ll + 1) / 2 + rl * (rl + 1) / 2
        return [min(k + 1, n - k) / S if k < n else 0.0 for k in range(steps)]
    if kind == "trima":
        return [(max(0, n - abs(k - (n - 1)))) / (n * n) if k < 2 * n - 1 else 0.0 for k in range(steps)]
    if kind in ("ema", "rma", "wsma"):
        a = 2.0 / (n + 1) if kind == "ema" else 1.0 / n
        return [a * (1 - a) ** k for k in range(steps)]
    if kind == "dma":
        a = 2.0 / (n + 1)
        return [(k + 1) * a * a * (1 - a) ** k for k in range(steps)]
    if kind == "tma":
        a = 2.0 / (n + 1)
        return [(k + 1) * (k + 2) / 2 * a ** 3 * (1 - a) ** k for k in range(steps)]
    if kind == "linreg":
        # value of the least-squares line at the newest point: w_k = 2 (2n - 1 - 3k) / (n (n + 1)) for the last n inputs
        return [2.0 * (2 * n - 1 - 3 * k) / (n * (n + 1)) if k < n else 0.0 for k in range(steps)]
    return None


def run(ctx):
    rng = ctx.rng.fork("c15")
    cases, checks = [], []
    steps = 60 if ctx.tier == "quick" else 250

    def add(k, n, x0, xs, tag):
        c = Simple(ma_line(k, n, x0, xs), "[]", tag, exact=False, extra={"entry": "MA:" + KINDS[k], "length": n})
        cases.append(c)
        return len(cases) - 1
    for k, kind in enumerate(KINDS):
        lo, hi = lens_for(kind)
        for rep in range(3 if ctx.tier == "quick" else 12):
            n = max(lo, min(hi, rng.choice([lo, 2, 3, 5, 9, 14, 30, rng.range(lo, hi)])))
            # dyadic streams: a*x+b and x+y are exact
            xs = [rng.range(-4096, 4096) / 16.0 * rng.choice([1.0, 1.0, 64.0, 1 / 64.0]) for _ in range(steps)]
            ys = [rng.range(-4096, 4096) / 16.0 for _ in range(steps)]
            if rng.chance(0.3):
                for i in range(10, 10 + n + 3):
                    if i < len(xs):
                        xs[i] = xs[10]
            x0, y0 = xs[0], ys[0]
            a = rng.choice([2.0, -1.0, -0.5, 4.0, 1.0, -8.0, 0.25])
            b = rng.choice([0.0, 16.0, -1024.0, 0.5, 256.0])
            i0 = add(k, n, x0, xs, "base")
            i1 = add(k, n, a * x0 + b, [a * x + b for x in xs], "affine")
            checks.append(("affine", kind, n, i0, i1, a, b, xs))
            if kind in LINEAR:
                j0 = add(k, n, y0, ys, "base-y")
                j1 = add(k, n, x0 + y0, [x + y for x, y in zip(xs, ys)], "sum")
                checks.append(("super", kind, n, i0, j0, j1, xs, ys))
            if kind in CONVEX:
                checks.append(("range", kind, n, i0, x0, xs))
            for _tie in range((8 if kind == "smm" else 1) if rep == 0 else 0):
                from ..suites.select import ALPHA
                ts = [rng.choice(ALPHA) for _ in range(4 * steps)]
                nn = max(lo, min(hi, rng.choice([2, 3, 4])))
                t0 = add(k, nn, ts[0], ts, "base-ties")
                t1 = add(k, nn, -ts[0], [-x for x in ts], "negated-ties")
                checks.append(("affine", kind, nn, t0, t1, -1.0, 0.0, ts))
            cst = add(k, n, x0, [x0] * 30, "constant")
            checks.append(("const", kind, n, cst, x0))
            # streams over a three-letter dyadic alphabet: the incoming value often EQUALS the value leaving the window while the
            # window is not constant (an update that is skipped "because nothing changed" breaks superposition there)
            if kind in LINEAR and rep < 2:
                nn = max(lo, min(hi, rng.choice([2, 3, 4, 5])))
                qs = [float(rng.choice([0, 1, 2])) for _ in range(steps)]
                rs = [float(rng.choice([0, 4, 8])) for _ in range(steps)]
                q0 = add(k, nn, qs[0], qs, "base-alphabet")
                r0 = add(k, nn, rs[0], rs, "base-alphabet-y")
                s0 = add(k, nn, qs[0] + rs[0], [x + y for x, y in zip(qs, rs)], "sum-alphabet")
                checks.append(("super", kind, nn, q0, r0, s0, qs, rs))
            # the moving median is an exact selection: also on finite values of extreme magnitude and opposite signs its output
            # stays between the smallest and the largest value it has been given (no overflow in the mean of the two middle ones)
            if kind == "smm" and rep < 2:
                ext = [1.7e308, -1.7e308, 9e307, -9e307, 1e308, -1e308, 1.0, -1.0, 0.0, 5e-324]
                for nn in (2, 4, 3):
                    es = [rng.choice(ext) for _ in range(steps)]
                    e0 = add(k, nn, es[0], es, "extreme-magnitudes")
                    checks.append(("range", kind, nn, e0, es[0], es))
        # impulse response for ALL lengths
        if weights(kind, 3, 5) is not None:
            for n in range(lo, hi + 1) if ctx.tier == "thorough" else sorted(set(list(range(lo, min(hi, 20) + 1)) + [rng.range(lo, hi) for _ in range(12)] + [hi, 64, 127])):
                if n > hi:
                    continue
                m = min(3 * n + 5, 700)
                ii = add(k, n, 0.0, [1.0] + [0.0] * (m - 1), "impulse")
                checks.append(("impulse", kind, n, ii, m))
    impl, _ = ctx.run_suite("ma-relations", cases, HEADER, model=False, theorem="Properties/C15.v")

    def outs(i):
        io = impl[i]
        if not io or len(io) < 2 or io[1] != 0:
            return None
        if T_PANIC in io:
            return "panic"
        return [bits2f(v) for v in io[2:]]
    for ch in checks:
        kind, n = ch[1], ch[2]
        G = GAIN.get(kind, 2)
        if ch[0] == "affine":
            _, _, _, i0, i1, a, b, xs = ch
            y, z = outs(i0), outs(i1)
            if not y or not z or y == "panic" or z == "panic":
                continue
            M = 0.0
            for t, (p, q) in enumerate(zip(y, z)):
                M = max(M, abs(xs[t]), abs(xs[0]))
                A = K * U * (t + n + 8) * (abs(a) * M + abs(b)) * G
                if kind == "vidya":
                    continue_ok = True
                if finite(p) and finite(q) and not abs(q - (a * p + b)) <= 2 * A:
                    if kind == "vidya":
                        break   # Vidya's factor is residue-sensitive: covered by C03's one-step rule and its known finding
                    ctx.fail_input(cases[i1].meta(), "%s(%d): average of %r*x%+r at step %d is %r, %r*average%+r = %r (allowance %.3g)" % (
                        kind, n, a, b, t, q, a, b, a * p + b, 2 * A), impl[i1])
                    break
        elif ch[0] == "super":
            _, _, _, i0, j0, j1, xs, ys = ch
            p, q, s = outs(i0), outs(j0), outs(j1)
            if not p or not q or not s or "panic" in (p, q, s):
                continue
            M = 0.0
            for t in range(len(s)):
                M = max(M, abs(xs[t]) + abs(ys[t]))
                A = K * U * (t + n + 8) * M * G
                if not abs(s[t] - (p[t] + q[t])) <= 3 * A:
                    ctx.fail_input(cases[j1].meta(), "%s(%d): superposition fails at step %d: avg(x+y) = %r, avg(x)+avg(y) = %r" % (kind, n, t, s[t], p[t] + q[t]), impl[j1])
                    break
        elif ch[0] == "range":
            _, _, _, i0, x0, xs = ch
            y = outs(i0)
            if not y or y == "panic":
                continue
            lo_, hi_ = x0, x0
            for t, v in enumerate(y):
                lo_, hi_ = min(lo_, xs[t]), max(hi_, xs[t])
                A = K * U * (t + n + 8) * max(abs(lo_), abs(hi_)) * G
                if not (lo_ - A <= v <= hi_ + A):
                    if kind == "vidya":
                        break
                    ctx.fail_input(cases[i0].meta(), "%s(%d): output %r at step %d leaves the interval [%r, %r] spanned by the values it has been given" % (kind, n, v, t, lo_, hi_), impl[i0])
                    break
        elif ch[0] == "const":
            _, _, _, ci, x0 = ch
            y = outs(ci)
            if not y or y == "panic":
                continue
            for t, v in enumerate(y):
                if not abs(v - x0) <= K * U * (t + n + 8) * abs(x0) * G:
                    ctx.fail_input(cases[ci].meta(), "%s(%d) does not reproduce the constant %r: %r at step %d" % (kind, n, x0, v, t), impl[ci])
                    break
        else:
            _, _, _, ii, m = ch
            y = outs(ii)
            if not y or y == "panic":
                continue
            w = weights(kind, n, m)
            for t in range(min(len(y), m)):
                if not abs(y[t] - w[t]) <= K * U * (t + n + 8) * 2:
                    ctx.fail_input(cases[ii].meta(), "%s(%d): impulse response at lag %d is %r, the documented weight is %r" % (kind, n, t, y[t], w[t]), impl[ii])
                    break
    # ---- Conv and VWMA (models + oracle of C02 give the definitional weights; here: affine and range on the implementation)
    ccases = []
    for rep in range(6 if ctx.tier == "quick" else 40):
        k = rng.range(1, 30)
        ws = [float(rng.range(0, 9)) for _ in range(k)]
        if sum(ws) == 0:
            ws[0] = 1.0
        off = rng.choice([0.0, 1000.0, -500.0, 100.0])
        xs = [off + rng.range(-4096, 4096) / 16.0 * rng.choice([1.0, 1 / 64.0]) for _ in range(steps)]
        c = numeric.conv_case(ws, xs[0], xs, "conv-range")
        c._spec = None
        lo0 = [xs[0]]

        def orc(io, xs=xs, k=k):
            if not io or io[0] != 0:
                return None
            lo_, hi_ = xs[0], xs[0]
            for t, v in enumerate(io[1:]):
                lo_, hi_ = min(lo_, xs[t]), max(hi_, xs[t])
                y = bits2f(v)
                if not (lo_ - 1e-9 * max(abs(lo_), abs(hi_), 1) <= y <= hi_ + 1e-9 * max(abs(lo_), abs(hi_), 1)):
                    return ["Conv with non-negative weights: output %r at step %d leaves [%r, %r]" % (y, t, lo_, hi_)]
            return []
        c.oracle = orc
        ccases.append(c)
        n = rng.range(1, 30)
        vs = [float(rng.range(0, 64)) if not rng.chance(0.25) else 0.0 for _ in range(steps)]
        ps = list(zip(xs, vs))
        vc = numeric.vwma_case(n, (xs[0], 1.0), ps, "vwma-range")
        vc._spec = None

        def orv(io, ps=ps, n=n, x0=xs[0]):
            if not io or io[0] != 0:
                return None
            for t, v in enumerate(io[1:]):
                y = bits2f(v)
                w = [(ps[t - i] if t - i >= 0 else (x0, 1.0)) for i in range(n)]
                tot = sum(q for _, q in w)
                if tot <= 0:
                    continue
                lo_, hi_ = min(p for p, q in w if q > 0), max(p for p, q in w if q > 0)
                if not (lo_ - 1e-9 * max(abs(lo_), abs(hi_), 1) <= y <= hi_ + 1e-9 * max(abs(lo_), abs(hi_), 1)):
                    return ["VWMA(%d): output %r at step %d leaves the interval [%r, %r] of the prices with positive volume in its window" % (n, y, t, lo_, hi_)]
            return []
        vc.oracle = orv
        ccases.append(vc)
    # mixed-sign kernels (differencing / lagged): definition oracle on level-shifted inputs and on constants
    for ws in ([-1.0, 0.0, 1.0, 2.0, 4.0], [4.0, 2.0, 1.0, 0.0, -1.0], [-1.0, 3.0], [3.0, -1.0], [1.0, 0.0], [0.0, 1.0], [-2.0, -1.0, 0.0]):
        for off in (0.0, 101.5, -500.0):
            xs = [off + rng.range(-4096, 4096) / 16.0 for _ in range(30)]
            ccases.append(numeric.conv_case(ws, xs[0], xs, "conv-mixed-sign"))
            ccases.append(numeric.conv_case(ws, off + 1.0, [off + 1.0] * 12, "conv-mixed-sign-constant"))
    ctx.run_suite("conv-vwma", ccases, HEADER, per_shard=10, theorem="Properties/C15.v; Properties/C02.v (C02_conv, C02_vwma)")


def replay(ctx, path):
    return c09.replay(ctx, path)
