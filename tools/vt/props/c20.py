"""C20 — PeriodType width and ValueType precision are only capacity and precision choices."""
import struct
from .. import core, gens
from ..core import T_PANIC, T_ERR
from ..suites import window, numeric, select, glue, indicators as ind
from ..suites.indicators import ICase
from . import c01, c04, c09, c10

COQ_TARGETS = ["Properties/C20.vo", "Exec/DefRun.vo", "Exec/SelectRun.vo"]
PROP_MODULES = ["Properties.C20"]
HEADER16 = c10.HEADER.replace("Local Existing Instance PW8.", "Local Existing Instance PW16.")
RULE = ("harness built for {default, period_type_u16, period_type_u64, value_type_f32} (thorough: + u32, u16+unsafe_performance): "
        "(a) programs whose parameters fit u8 -- numeric and selection methods, Window programs, API glue, all indicators -- must "
        "give bit-identical transcripts in the period-type builds; (b) the u16 build is run with lengths 300..3000 against the "
        "Gallina model instantiated at width 16 (bit-exact) and against the from-scratch definitions; (c) the f32 build is run on "
        "f32-representable inputs against the definitions with u = 2^-24; distinct = distinct case lines")
ASSUMPTIONS = ["no NumF32 model instance is built: the f32 build is checked against the definitions (evaluated in binary64) under the "
               "single-precision allowance, not bit-for-bit",
               "only SMA/WMA/LinReg are re-stated at the wide widths in Properties/C20.v; every other theorem is width-generic by construction"]
TRUSTED_EXTRA = []
U32 = 2.0 ** -24


def translate(ctx):
    rc, out = ind.run_xlate()
    if rc != 0:
        ctx.broke("translation", "xlate", out[-2000:])


def wide_feats(ctx):
    f = [("period_type_u16",), ("period_type_u64",)]
    if ctx.tier == "thorough":
        f += [("period_type_u32",), ("period_type_u16", "unsafe_performance")]
    return f


def builds(ctx):
    return [("debug", ())] + [("debug", f) for f in wide_feats(ctx)] + [("debug", ("value_type_f32",))]


def f32r(x):
    try:
        return struct.unpack("<f", struct.pack("<f", x))[0]
    except OverflowError:
        return 1.0


def run(ctx):
    rng = ctx.rng.fork("c20")
    # ---------------- (a) width differential on parameters that fit u8
    cases = []
    cases += [c for c in numeric.gen_scalar(rng.fork("n"), "quick", list(numeric.WINDOWED) + list(numeric.RECURSIVE) + ["Vidya"])
              if c.kind not in ("ctor-boundary",)]
    cases += [c for c in select.gen_select(rng.fork("s"), "quick") if c.kind.startswith("stream")]
    cases += [c for c in select.gen_detectors(rng.fork("d"), "quick") if c.kind in ("pairs", "stream", "long-stream")]
    cases += [c for c in window.gen(rng.fork("w"), "quick") if "boundary" not in c.kind]
    cases += glue.gen(rng.fork("g"), "quick", ["chunk", "clone", "history", "serde"])
    try:
        tabs = ind.tables()
    except Exception as e:
        tabs = []
        ctx.broke("translation", "tables", repr(e))
    for t in tabs:
        r = rng.fork("i-" + t["config"])
        cs, _ = ind.candles_for(r, 400 if ctx.tier == "quick" else 1200)   # beyond 255 steps: position counters
        for sets in ind.configs(t, r, 1 if ctx.tier == "quick" else 3):
            cases.append(ICase(t["config"], "run", sets, cs[0], cs[1:], kind="indicator"))
        # every length parameter at the top of the 8-bit range (253, 254): arithmetic on the parameter that saturates or wraps in
        # u8 (period + 1, period * 2, ...) gives another instance than the wide builds although the parameter fits
        for f in t["fields"]:
            if not f["public"] or f["ty"] not in ("PeriodType", "M"):
                continue
            for top in ("254", "253"):
                v = top if f["ty"] == "PeriodType" else "sma-" + top
                cases.append(ICase(t["config"], "run", [(f["name"], v)], cs[0], cs[1:], kind="indicator-top-of-u8"))
    lines = [c.line() for c in cases]
    base, _ = core.run_harness_robust(lines, "debug", ())
    for feats in wide_feats(ctx):
        other, _ = core.run_harness_robust(lines, "debug", feats)
        nd = 0
        for c, x, y in zip(cases, base, other):
            ctx.evaluations += 1
            if x is None or y is None:
                ctx.broke("harness", "width-differential", "missing transcript (%s)" % (feats,), c.meta())
                continue
            if "unsafe_performance" in feats and (T_PANIC in x or x == [-4]):
                continue    # C19's quantifier: the unchecked build is only specified on programs on which the default build does not panic
            if getattr(c, "kind", "") == "indicator-top-of-u8":
                # a combined constraint (left + right < MAX, period * 2 - 1 <= MAX) may exclude the top of the 8-bit range only in
                # the 8-bit build: that is the capacity the width buys, not a behavioural difference; compare accepted instances only
                px = ind.parse(x, len(c.sets))
                if px.panic_in_set or px.valid != 1 or px.init != 0:
                    continue
            if x != y:
                nd += 1
                k = core.first_diff(x, y)
                ctx.fail_input(dict(c.meta(), features=list(feats)), "build %s differs from the default build at transcript slot %d (%s vs %s) although every parameter fits u8" % (
                    "+".join(feats), k, y[k] if k < len(y) else None, x[k] if k < len(x) else None), y, x)
        ctx.suites.append(dict(name="width-differential-" + "+".join(feats), cases=len(cases), disagreements=nd, oracle_failures=nd,
                               kinds={}, profile="debug", features=list(feats), seconds=0))
        ctx.log("width differential %s: %d cases, %d differences" % (feats, len(cases), nd))
    # ---------------- (b) lengths beyond 255 on the u16 build against the model at width 16 and the definitions
    wcases = []
    r = rng.fork("wide")
    lens = [256, 300, 1000] + ([3000] if ctx.tier == "thorough" else [])
    for name in ["SMA", "WMA", "LinReg", "StDev", "Momentum", "Integral", "EMA", "SWMA", "MeanAbsDev"]:
        for n in lens:
            if name == "MeanAbsDev" and n > 1000:
                continue
            x0, xs, regime = gens.stream(r, n + 150, regime=r.choice(["walk", "plateau", "monotone", "spikes"]))
            c = numeric.scalar_case(name, n, x0, xs, "wide-length", extra={"regime": regime}, with_spec=(n <= (300 if ctx.tier == "quick" else 1000) and name != "MeanAbsDev"), hi_override=65534)
            wcases.append(c)
    # every other length-parameterised method at two lengths just beyond the u8 range (a hard-coded 255/254 or a narrow cast
    # anywhere shows as a rejected constructor or a different value), and convolution kernels with more than 254 taps
    for name in ["TRIMA", "HMA", "Derivative", "RateOfChange", "Past", "LinearVolatility", "CCI", "RMA", "DMA", "TMA", "DEMA", "TEMA",
                 "WSMA", "Vidya"]:
        if name not in numeric.SCALAR:
            continue
        for n in (256, 300):
            x0, xs, regime = gens.stream(r, n + 120, regime=r.choice(["walk", "plateau", "spikes"]))
            wcases.append(numeric.scalar_case(name, n, x0, xs, "wide-length", extra={"regime": regime}, with_spec=False, hi_override=65534))
    for taps in (255, 256, 300):
        x0, xs, regime = gens.stream(r, taps + 100, regime="walk")
        ws = [r.choice([1.0, 0.5, -0.25, 2.0, 0.0, 3.0]) for _ in range(taps)]
        ws[0] = 1.0
        wcases.append(numeric.conv_case(ws, x0, xs, "wide-length", {"regime": regime, "taps": taps}))
    for name in ["Highest", "Lowest", "HighestIndex", "LowestIndex", "SMM", "HighestLowestDelta"]:
        for n in lens:
            for regime in ("monotone", "walk", "plateau"):
                x0, xs, regime = gens.stream(r, n + 200, regime=regime)
                xs = [x if x == x and abs(x) != float("inf") else 1.0 for x in xs]
                if regime == "monotone":   # the extremum travels the whole window: indices beyond 255
                    xs = [float(len(xs) - i) for i in range(len(xs))] if name in ("Highest", "HighestIndex", "HighestLowestDelta") else [float(i) for i in range(len(xs))]
                    x0 = xs[0]
                wcases.append(select.scalar_sel(name, n, x0, xs, "wide-length", {"regime": regime}, hi=65534))
    for (l, rr) in [(200, 150), (300, 300), (1, 500)]:
        _, xs, _ = gens.stream(r, 1500, regime="plateau")
        wcases.append(select.rev_case("ReversalSignal", l, rr, xs[0], xs, "wide-length", hi=65534))
    for c in wcases:   # the selection oracles assumed u8 validity ranges
        if isinstance(c, select.SCase) and c.oracle_fn is None and c.entry in select.SEL:
            n = c.extra["length"]
            xs_ = None
    for c in wcases:
        c.exact = True   # the width-16 model is the specification of the wide build: a difference is a failing input
    wimpl, _ = ctx.run_suite("wide-lengths-u16", wcases, HEADER16, features=("period_type_u16",), per_shard=3,
                             theorem="Properties/C20.v (C20_sma_u16, ...; width-generic theorems of C02/C04)")
    # every length used above lies in 2..65534: with a 16-bit PeriodType the constructor must accept it
    for c, io in zip(wcases, wimpl):
        if io and io[0] != 0 and io[0] != core.T_PANIC:
            ctx.fail_input(dict(c.meta(), features=["period_type_u16"]),
                           "the period_type_u16 build rejects the length %s of %s (outcome %s), which fits a 16-bit PeriodType" % (
                               c.meta().get("length"), c.meta().get("entry"), io[0]), io)
    # ---------------- (b') indicators with parameters beyond 255 on the u16 build against the Gallina model at width 16
    WIDE = {
        "Aroon": [("period", "300"), ("over_zone_period", "400")],
        "AverageDirectionalIndex": [("method1", "rma-300"), ("method2", "rma-300"), ("period1", "260")],
        "AwesomeOscillator": [("ma1", "sma-300"), ("ma2", "sma-260"), ("left", "200"), ("right", "100")],
        "BollingerBands": [("avg_size", "300")],
        "ChaikinMoneyFlow": [("size", "300")],
        "ChaikinOscillator": [("ma1", "ema-260"), ("ma2", "ema-300"), ("window", "280")],
        "ChandeKrollStop": [("ma", "sma-300"), ("q", "260")],
        "ChandeMomentumOscillator": [("period", "300")],
        "CommodityChannelIndex": [("period", "300")],
        "CoppockCurve": [("ma1", "wma-300"), ("s3_ma", "ema-260"), ("period2", "320"), ("period3", "280"), ("s2_left", "200"), ("s2_right", "100")],
        "DetrendedPriceOscillator": [("ma", "sma-300")],
        "DonchianChannel": [("period", "300")],
        "EaseOfMovement": [("ma", "sma-300"), ("period2", "260")],
        "EldersForceIndex": [("ma", "ema-300"), ("period2", "260")],
        "Envelopes": [("ma", "sma-300")],
        "HullMovingAverage": [("period", "300"), ("left", "150"), ("right", "120")],
        "IchimokuCloud": [("l1", "260"), ("l2", "300"), ("l3", "400"), ("m", "280")],
        "Kaufman": [("period1", "300"), ("period2", "260"), ("period3", "400"), ("filter_period", "280")],
        "KeltnerChannel": [("ma", "ema-300")],
        "KlingerVolumeOscillator": [("ma1", "ema-260"), ("ma2", "ema-300"), ("signal", "ema-280")],
        "KnowSureThing": [("period1", "260"), ("period2", "280"), ("period3", "300"), ("period4", "320"), ("ma1", "sma-260"),
                          ("ma2", "sma-270"), ("ma3", "sma-280"), ("ma4", "sma-290"), ("signal", "sma-300")],
        "MACD": [("ma1", "ema-260"), ("ma2", "ema-300"), ("signal", "ema-280")],
        "MomentumIndex": [("period1", "300"), ("period2", "260")],
        "MoneyFlowIndex": [("period", "300")],
        "PivotReversalStrategy": [("left", "200"), ("right", "100")],
        "PriceChannelStrategy": [("period", "300")],
        "RelativeStrengthIndex": [("ma", "ema-300")],
        "RelativeVigorIndex": [("period1", "300"), ("period2", "260"), ("signal", "sma-280")],
        "SMIErgodicIndicator": [("period1", "300"), ("period2", "260"), ("signal", "ema-280")],
        "StochasticOscillator": [("period", "300"), ("ma", "sma-260"), ("signal", "sma-280")],
        "TrendStrengthIndex": [("period", "300"), ("reverse_offset", "260")],
        "Trix": [("period1", "300"), ("signal", "sma-260")],
        "TrueStrengthIndex": [("period1", "300"), ("period2", "260"), ("period3", "280")],
        "WoodiesCCI": [("period1", "260"), ("period2", "300"), ("s1_lag", "280")],
    }
    from ..suites import indmodels as im
    icases16 = []
    tabd = {t["config"]: t for t in tabs}
    r = rng.fork("wide-ind")
    for name, sets in WIDE.items():
        if name not in im.MODELS or name not in tabd:
            continue
        try:
            im.eff_config(tabd[name], sets)
        except Exception:
            continue
        cs, regime = ind.candles_for(r, (420 if ctx.tier == "quick" else 900), regime=r.choice(["walk", "monotone", "plateau"]))
        icases16.append(im.IMCase(tabd[name], sets, cs[0], cs[1:], kind="wide-parameters", meta={"regime": regime}))
        # one-sided legs longer than 255 bars: trend lengths and counters beyond the 8-bit range
        tc = gens.trend_candles(r, [(380, 0.002), (300, -0.002)] if ctx.tier == "quick" else [(700, 0.001), (600, -0.001), (300, 0.002)])
        icases16.append(im.IMCase(tabd[name], sets, tc[0], tc[1:], kind="wide-parameters-trend", meta={"regime": "monotone-legs"}))
    for c in icases16:
        c.exact = True   # the width-generic model is the specification here: a difference is a failing input of the wide build
    iimpl, imod = ctx.run_suite("wide-indicator-parameters-u16", icases16, im.HEADER.replace("Local Existing Instance PW8.", "Local Existing Instance PW16."),
                             features=("period_type_u16",), per_shard=2, theorem="width-generic indicator models (Indicators/*.v at PW16)")
    for c, io, mo in zip(icases16, iimpl, imod):
        if io and mo and mo[0] == 0:      # the width-16 model accepts the configuration
            p = ind.parse(io, len(c.sets))
            if p.init not in (0, None) and p.init != core.T_PANIC and not p.panic_in_set:
                ctx.fail_input(dict(c.meta(), features=["period_type_u16"]),
                               "the period_type_u16 build rejects the configuration %s of %s (init outcome %s): every parameter fits a 16-bit PeriodType" % (
                                   c.sets, c.name, p.init), io)
    # ---------------- (c) single precision
    fcases = []
    r = rng.fork("f32")
    for name in ["SMA", "WMA", "EMA", "RMA", "LinReg", "StDev", "Momentum", "Derivative", "Integral", "DMA", "TRIMA", "SWMA", "MeanAbsDev", "LinearVolatility"]:
        for n in [2, 5, 14, 50, 200]:
            x0, xs, regime = gens.stream(r, 120, regime=r.choice(["walk", "plateau", "monotone", "dyadic"]))
            xs = [f32r(x) for x in xs]
            x0 = f32r(x0)
            c = numeric.scalar_case(name, n, x0, xs, "f32", extra={"regime": regime})
            c.u = U32
            if c.cls == "E":
                c.cls = "A"   # one single-precision rounding against the binary64 evaluation of the definition
            c.gain = c.gain * 4
            fcases.append(c)
    ctx.run_suite("single-precision", fcases, c10.HEADER, features=("value_type_f32",), model=False, per_shard=12,
                  theorem="precision-independent NumR theorems of C02/C03")
    ctx.extra["builds_compared"] = ["default"] + ["+".join(f) for f in wide_feats(ctx)] + ["value_type_f32"]


def replay(ctx, path):
    import json
    with open(path) as f:
        rec = json.load(f)
    c = rec.get("case") or {}
    feats = tuple(c.get("features") or ())
    core.build_harness("debug", ())
    if feats:
        core.build_harness("debug", feats)
    if c.get("line"):
        a, _ = core.run_harness_robust([c["line"]], "debug", ())
        print("case:", c["line"][:300])
        print("default build:", (a[0] or [])[:40])
        if feats:
            b, _ = core.run_harness_robust([c["line"]], "debug", feats)
            print("%s build:" % "+".join(feats), (b[0] or [])[:40])
    return 0
