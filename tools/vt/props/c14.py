"""C14 — Crossing and reversal detectors are definitional for any stream length."""
from ..suites import select, numeric
from . import c04

COQ_TARGETS = ["Properties/C14.vo", "Exec/SelectRun.vo"]
PROP_MODULES = ["Properties.C14"]
HEADER = c04.HEADER
RULE = ("Cross/CrossAbove/CrossUnder/Cross::default on pairs of series with exact touches, repeated zeros of both signs, "
        "sticky walks and random series; reversal detectors on a de Bruijn sequence over the tie alphabet for all (left,right) "
        "with window <= 5, random (left,right) up to 126 on plateau/tie-heavy streams, and streams far longer than "
        "PeriodType::MAX (2000; thorough 70000 steps); distinct = distinct case lines")
ASSUMPTIONS = ["Coq theorems for Cross / CrossAbove / CrossUnder and for Upper / Lower / ReversalSignal (every stream length, exact "
               "carrier; the reversal theorems assume the API convention below)",
               "the reversal definition is checked under the API convention that the first input equals the construction value "
               "(other cases are compared with the model only)"]
TRUSTED_EXTRA = []


def builds(ctx):
    return [("debug", ())] + ([("release", ())] if ctx.tier == "thorough" else [])


def run(ctx):
    cases = select.gen_detectors(ctx.rng, ctx.tier)
    ctx.run_suite("detectors", cases, HEADER, per_shard=6, theorem="Properties/C14.v")
    if ctx.tier == "thorough":
        ctx.run_suite("detectors-release", cases, HEADER, profile="release", model=False)


def replay(ctx, path):
    return numeric.replay(ctx, path, HEADER)
