"""C17 — Timeseries converters keep the information they claim to keep."""
import math
from .. import core, gens
from ..core import f2bits, bits2f, coq_float, T_ERR, T_PANIC
from ..suites import numeric
from ..suites.action import Simple
from ..suites.numeric import cq_candle, hex_candle, finite, U
from . import c09, c10

COQ_TARGETS = ["Properties/C17.vo", "Exec/ConvertRun.vo", "Exec/DefRun.vo"]
PROP_MODULES = ["Properties.C17"]
HEADER = c10.HEADER.replace("Exec.TextRun.", "Exec.TextRun Methods.Convert Exec.ConvertRun.")
RULE = ("CollapseTimeframe: every period 1..12, boundary and random periods up to 400 on valid candle streams, streaming vs the "
        "batch collapse of the same sequence and vs the from-scratch aggregate; HeikinAshi on valid streams (recursion + validity of "
        "the output); Renko: brick sizes across (eps,1), every Source, prices steered exactly onto, one ulp below and above each "
        "brick boundary (a float replica of the state tracks them), multi-brick jumps and reversals; distinct = distinct case lines")
ASSUMPTIONS = ["Renko theorems are in exact arithmetic; on binary64 contiguity across steps and the emission rule are checked with a 1e-9 relative exemption band around the boundary",
               "usize arithmetic of Renko (len as usize, len - 1) cannot overflow for the brick counts that occur (saturating cast modelled)"]
TRUSTED_EXTRA = []


def builds(ctx):
    return [("debug", ())] + ([("release", ())] if ctx.tier == "thorough" else [])


def collapse_oracle(period, cs):
    def f(io):
        if io[0] != 0:
            return None if period == 0 else ["constructor rejected period %d" % period]
        if T_PANIC in io:
            return ["CollapseTimeframe panicked"]
        r = []
        i = 1
        emitted = []
        for t in range(len(cs)):
            if io[i] == -1:
                got = None
                i += 1
            else:
                got = [bits2f(x) for x in io[i + 1:i + 6]]
                i += 6
            due = (t + 1) % period == 0
            if due != (got is not None):
                r.append("step %d: %s a candle, period %d" % (t, "emitted" if got else "did not emit", period))
                break
            if got is not None:
                w = cs[t + 1 - period:t + 1]
                exp = [w[0][0], max(c[1] for c in w), min(c[2] for c in w), w[-1][3]]
                vol = math.fsum(c[4] for c in w)
                if got[:4] != exp or not abs(got[4] - vol) <= 4 * U * period * max(abs(c[4]) for c in w) + 5e-324:
                    r.append("step %d: collapsed candle %s, expected first open/max high/min low/last close %s and volume %r" % (t, got, exp, vol))
                    break
                emitted.append(io[i - 5:i])
        if r:
            return r
        if io[i] != -77:
            return ["transcript malformed"]
        nb = io[i + 1]
        batch = [io[i + 2 + 5 * k:i + 7 + 5 * k] for k in range(nb)]
        if batch != emitted:
            return ["streaming CollapseTimeframe and Sequence::collapse_timeframe(%d, false) disagree (%d vs %d candles)" % (period, len(emitted), nb)]
        return []
    return f


def ha_valid_oracle(c0, cs):
    def f(case, outs, so, ctx):
        r = []
        for t in range(len(outs) // 5):
            o, h, l, c, v = [bits2f(x) for x in outs[5 * t:5 * t + 5]]
            d = [bits2f(x) for x in so[5 * t:5 * t + 5]]
            if [o, h, l, c] != d[:4] and not all(a == b for a, b in zip([o, h, l, c], d[:4])):
                r.append("step %d: HeikinAshi output %s is not its open/close recursion %s" % (t, [o, h, l, c], d[:4]))
                break
            if not (l <= o <= h and l <= c <= h and min(o, h, l, c) > 0 and all(finite(x) for x in (o, h, l, c))):
                r.append("step %d: HeikinAshi output %s is not a valid candle although the input is" % (t, [o, h, l, c]))
                break
        return r
    return f


class RenkoSim:
    """float replica of the Renko state, used only to STEER prices onto boundaries"""

    def __init__(self, size, v):
        half = v * size * 0.5
        self.size = size
        self.lu, self.ll = v + half, v - half
        self.nu, self.nl = (v + half) * (1.0 + size), (v - half) * (1.0 - size)

    def feed(self, v):
        s = self.size
        if v >= self.nu:
            ln = max(1, int((v - self.lu) / self.lu / s))
            b = self.lu
            self.lu, self.ll = b * (1.0 + s * ln), b * (1.0 + s * (ln - 1))
        elif v <= self.nl:
            ln = max(1, int((self.ll - v) / self.ll / s))
            b = self.ll
            self.lu, self.ll = b * (1.0 - s * (ln - 1)), b * (1.0 - s * ln)
        else:
            return
        self.nu, self.nl = self.lu * (1.0 + s), self.ll * (1.0 - s)


def renko_oracle(size, cs_prices, vols, v0=None):
    def f(io):
        if io[0] != 0:
            return None
        if T_PANIC in io:
            return ["Renko panicked (price on or across a brick boundary)"]
        r = []
        i = 1
        pending = 0.0
        last = None      # (direction, last brick open, last brick close)
        if v0 is not None and v0 == v0 and abs(v0) != float('inf') and v0 > 0:
            # before the first emission the 'last brick' is the one centred on the construction price (half a brick either side)
            last = (1, v0 - v0 * size * 0.5, v0 + v0 * size * 0.5)
        for t, p in enumerate(cs_prices):
            ln, sign = io[i], io[i + 1]
            o, c, vol = bits2f(io[i + 2]), bits2f(io[i + 3]), bits2f(io[i + 4])
            hint = io[i + 5]
            nb = min(ln, 64)
            bricks = [(bits2f(io[i + 6 + 3 * k]), bits2f(io[i + 7 + 3 * k]), bits2f(io[i + 8 + 3 * k])) for k in range(nb)]
            i += 6 + 3 * nb
            pending += vols[t]
            if ln < 0 or hint != ln:
                r.append("step %d: brick count %d / size_hint %d" % (t, ln, hint))
                break
            if ln == 0:
                if last is not None:
                    up_b = last[2] * (1 + size) if last[0] > 0 else last[1] * (1 + size)
                    lo_b = last[1] * (1 - size) if last[0] > 0 else last[2] * (1 - size)
                    if p > up_b * (1 + 1e-9) or p < lo_b * (1 - 1e-9):
                        r.append("step %d: price %r is beyond the next brick boundary (%r / %r) but no brick was emitted" % (t, p, lo_b, up_b))
                        break
                continue
            if sign not in (1, -1):
                r.append("step %d: bricks without a direction" % t)
                break
            for k, (bo, bc, bv) in enumerate(bricks):
                if (bc > bo) != (sign > 0):
                    r.append("step %d: brick %d goes against the step's direction" % (t, k))
                if k + 1 < len(bricks) and bricks[k + 1][0] != bc:
                    r.append("step %d: bricks %d and %d are not contiguous (%r vs %r)" % (t, k, k + 1, bc, bricks[k + 1][0]))
                rel = abs(bc - bo) / abs(o) if o else float("nan")
                if not abs(rel - size) <= 1e-9 * size + 8 * U:
                    r.append("step %d: brick %d has relative size %r, brick size is %r" % (t, k, rel, size))
            tot = vol
            if not abs(tot - pending) <= 8 * U * max(abs(pending), 1e-300) * (t + 2):
                r.append("step %d: bricks carry volume %r, consumed since the previous emission: %r" % (t, tot, pending))
            if last is not None and bricks:
                ref = last[2] if last[0] == sign else last[1]
                if not abs(bricks[0][0] - ref) <= 1e-9 * abs(ref):
                    r.append("step %d: first brick opens at %r, the previous emission ended at %r" % (t, bricks[0][0], ref))
            # emitted although the boundary was not reached?
            if last is not None:
                up_b = last[2] * (1 + size) if last[0] > 0 else last[1] * (1 + size)
                lo_b = last[1] * (1 - size) if last[0] > 0 else last[2] * (1 - size)
                if lo_b * (1 + 1e-9) < p < up_b * (1 - 1e-9):
                    r.append("step %d: bricks emitted although the price %r is strictly inside (%r, %r)" % (t, p, lo_b, up_b))
            if ln <= 64:
                last = (sign, bricks[-1][0], bricks[-1][1])
            else:
                last = None
            pending = 0.0
            if r:
                break
        return r[:3]
    return f


def run(ctx):
    rng = ctx.rng.fork("c17")
    cases = []
    # ---- CollapseTimeframe
    periods = list(range(0, 13)) + [16, 60, 255, 256, 257, 300] + [rng.range(1, 400) for _ in range(4 if ctx.tier == "quick" else 30)]
    for p in periods:
        n = min(3 * max(p, 1) + 7, 900) if ctx.tier == "quick" else 4 * max(p, 1) + 50
        cs, regime = gens.candles(rng, n)
        line = "candle collapse %d %d %s" % (p, len(cs), " ".join(hex_candle(c) for c in cs))
        term = "collapse_run (%d) [%s]" % (p, "; ".join(cq_candle(c) for c in cs))
        c = Simple(line, term, "collapse", collapse_oracle(p, cs), exact=False, extra={"entry": "CollapseTimeframe", "period": p})
        c.zero_loose = True
        cases.append(c)
    # ---- Renko
    for k in range(30 if ctx.tier == "quick" else 300):
        size = rng.choice([0.01, 0.005, 0.1, 0.5, 0.9, 0.25, 1e-3, 3e-16, 0.3333333333333333, 0.02])
        src = rng.choice([0, 0, 0, 1, 2, 3, 4, 7])
        base = rng.choice([100.0, 1.0, 12345.678, 0.01, 1e5])
        sim = None
        prices, cs = [], []
        n = 40 if ctx.tier == "quick" else 120
        p = base
        for t in range(n + 1):
            if sim is not None:
                u = rng.below(10)
                if u == 0:
                    p = sim.nu
                elif u == 1:
                    p = math.nextafter(sim.nu, math.inf)
                elif u == 2:
                    p = math.nextafter(sim.nu, 0.0)
                elif u == 3:
                    p = sim.nl
                elif u == 4:
                    p = math.nextafter(sim.nl, 0.0)
                elif u == 5:
                    p = math.nextafter(sim.nl, math.inf)
                elif u == 6:
                    p = sim.lu * (1.0 + size * rng.range(1, 6)) * (1 + (rng.unit() - 0.5) * 1e-3)
                elif u == 7:
                    p = sim.ll * max(1e-3, (1.0 - size * rng.range(1, 4))) * (1 + (rng.unit() - 0.5) * 1e-3)
                else:
                    p = p * (1 + (rng.unit() - 0.5) * size)
            if not (p > 0 and finite(p)):
                p = base
            # candle with the steered value as the chosen source (close/high/low/open) and consistent other fields
            c = [p, p, p, p, float(rng.range(0, 1000))]
            if src in (3, 4):   # tp / hl2 of a flat candle are p up to rounding; keep it flat
                c = [p, p, p, p, c[4]]
            cs.append(tuple(c))
            prices.append(p)
            srcv = p if src in (0, 1, 2, 7) else ((p + p + p) / 3.0 if src == 3 else (p + p) * 0.5)
            prices[-1] = srcv
            if sim is None:
                sim = RenkoSim(size, srcv)
            else:
                sim.feed(srcv)
        line = "candle renko %016x %d %s %d %s" % (f2bits(size), src, hex_candle(cs[0]), len(cs) - 1, " ".join(hex_candle(c) for c in cs[1:]))
        term = "renko_run %s (%d) %s [%s]" % (coq_float(size), src, cq_candle(cs[0]), "; ".join(cq_candle(c) for c in cs[1:]))
        c = Simple(line, term, "renko", renko_oracle(size, prices[1:], [x[4] for x in cs[1:]], prices[0]), exact=False,
                   extra={"entry": "Renko", "size": size, "source": src})
        c.zero_loose = True
        cases.append(c)
    for size in (0.0, 1.0, 2.0, -0.5, 1e-17, float("nan")):
        c0 = (1.0, 1.0, 1.0, 1.0, 1.0)
        line = "candle renko %016x 0 %s 1 %s" % (f2bits(size), hex_candle(c0), hex_candle(c0))
        cases.append(Simple(line, "renko_run %s 0 %s [%s]" % (coq_float(size), cq_candle(c0), cq_candle(c0)), "renko-ctor", None, exact=False,
                            extra={"entry": "Renko"}))
    ctx.run_suite("converters", cases, HEADER, per_shard=10, theorem="Properties/C17.v")
    # ---- HeikinAshi
    hcases = []
    for k in range(10 if ctx.tier == "quick" else 80):
        cs, regime = gens.candles(rng, 80 if ctx.tier == "quick" else 300)
        c = numeric.candle_case("HeikinAshi", 0, cs[0], cs[1:], "stream", {"regime": regime})
        c.oracle_fn = ha_valid_oracle(cs[0], cs[1:])
        hcases.append(c)
    ctx.run_suite("heikin-ashi", hcases, HEADER, per_shard=8, theorem="Properties/C17.v (C17_heikin_ashi)")
    if ctx.tier == "thorough":
        ctx.run_suite("converters-release", cases, HEADER, profile="release", model=False)


def replay(ctx, path):
    return c09.replay(ctx, path)
