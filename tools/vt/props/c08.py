"""C08 — The construction value acts as an infinite constant prehistory."""
import math
from .. import core, gens
from ..core import bits2f, T_PANIC
from ..suites import numeric, select, indicators as ind
from ..suites.indicators import ICase
from ..suites.numeric import K, U, finite
from . import c09, c10

COQ_TARGETS = ["Properties/C08.vo", "Exec/DefRun.vo", "Exec/SelectRun.vo"]
PROP_MODULES = ["Properties.C08"]
HEADER = c10.HEADER
RULE = ("every scalar method: a stream, the same stream behind k in {1,2,n-1,n,n+1,3n} extra leading copies of the construction "
        "value (later outputs must coincide: exactly for selections, within the rounding allowance otherwise) and long constant "
        "input (no drift: the output stays within the step-independent allowance of its first value); every indicator: constant "
        "candle (values constant up to rounding, signals exactly constant) and leading copies of the first candle; construction "
        "values of every sign and magnitude including 0; distinct = distinct case lines")
ASSUMPTIONS = ["exempt as the property says: windowless Integral/ADI and ChaikinOscillator configured with window = 0, CollapseTimeframe, "
               "Renko volume, the first step of ParabolicSAR"]
TRUSTED_EXTRA = []
EXACT = {"Momentum", "RateOfChange", "Past", "Highest", "Lowest", "HighestLowestDelta", "HighestIndex", "LowestIndex", "SMM"}


def translate(ctx):
    rc, out = ind.run_xlate()
    if rc != 0:
        ctx.broke("translation", "xlate", out[-2000:])


def builds(ctx):
    return [("debug", ())]


def mk(name, n, x0, xs, kind, extra=None):
    if name in select.SEL:
        return select.scalar_sel(name, n, x0, xs, kind, extra)
    return numeric.scalar_case(name, n, x0, xs, kind, extra=extra, with_spec=False)


def gain_of(name, n):
    if name in numeric.SCALAR:
        return numeric.SCALAR[name][8](max(n, 1))
    return 4


def run(ctx):
    rng = ctx.rng.fork("c08")
    names = [n for n in numeric.SCALAR if n not in ("Integral0",)] + list(select.SEL)
    cases, groups = [], []
    steps = 50 if ctx.tier == "quick" else 200
    for name in names:
        lo, hi = (numeric.SCALAR[name][3], numeric.SCALAR[name][4]) if name in numeric.SCALAR else ((2 if name == "MedianAbsDev" else 1), 254)
        for rep in range(2 if ctx.tier == "quick" else 8):
            n = max(lo, min(hi, rng.choice([1, 2, 3, 5, 8, 14, 30])))
            regime = rng.choice(["walk", "plateau", "dyadic", "spikes", "mixed-zeros", "alternating"])
            x0, xs, regime = gens.stream(rng, steps, regime=regime)
            x0 = rng.choice([xs[0], 0.0, -xs[0], xs[0] * 1e3, 1.0, -7.5])
            if not finite(x0):
                x0 = 1.0
            xs = [x if finite(x) else 1.0 for x in xs]
            base = mk(name, n, x0, xs, "prefix-base", {"regime": regime})
            bi = len(cases)
            cases.append(base)
            for k in sorted(set([1, 2, max(1, n - 1), n, n + 1, 3 * n])):
                c = mk(name, n, x0, [x0] * k + xs, "prefix-%d" % k, {"regime": regime, "k": k})
                groups.append((bi, len(cases), k, name, n, x0, xs))
                cases.append(c)
            # constant input, long
            cc = mk(name, n, x0, [x0] * (400 if ctx.tier == "quick" else 5000), "constant", {"k": "const"})
            groups.append((None, len(cases), "const", name, n, x0, xs))
            cases.append(cc)
    for c in cases:
        if hasattr(c, "_spec"):
            c._spec = None
        c.oracle_fn = None
    impl, _ = ctx.run_suite("method-prehistory", cases, HEADER, per_shard=40, theorem="Properties/C08.v (prefix_ok ...)")
    for (bi, ci, k, name, n, x0, xs) in groups:
        io = impl[ci]
        if not io or io[0] != 0:
            continue
        outs = io[1:]
        M = max([abs(x0)] + [abs(x) for x in xs]) if k != "const" else abs(x0)
        G = gain_of(name, n)
        if k == "const":
            ys = [bits2f(v) if name not in ("HighestIndex", "LowestIndex") else v for v in outs]
            def tol(t):
                if name in EXACT or name in ("HighestIndex", "LowestIndex"):
                    return 0.0
                if name == "StDev":
                    return math.sqrt(K * U * (t + n + 8)) * M
                return K * U * (t + n + 8) * M * G      # the growth bound of DESIGN.md 5 (linear in t)
            bad = next((t for t, y in enumerate(ys) if not (abs(y - ys[0]) <= tol(t) or (y != y and ys[0] != ys[0]) or y == ys[0])), None)
            if bad is not None:
                ctx.fail_input(cases[ci].meta(), "constant input %r: output at step %d is %r, first output %r (allowed drift %.3g)" % (x0, bad, ys[bad], ys[0], tol(bad)), io)
            continue
        b = impl[bi]
        if not b or b[0] != 0:
            continue
        a_out, b_out = outs[k:], b[1:]
        for t, (p, q) in enumerate(zip(a_out, b_out)):
            if name in ("HighestIndex", "LowestIndex"):
                ok = p == q
            else:
                y, z = bits2f(p), bits2f(q)
                A = K * U * (t + k + n + 8) * M * G
                if name in EXACT:
                    ok = (y == z) or (y != y and z != z)
                elif name == "StDev":
                    ok = abs(y * y - z * z) <= 2 * K * U * (t + k + n + 8) * M * M * G or (y != y and z != z)
                elif name in ("CCI", "RateOfChange"):
                    ok = True   # quotients with ill-conditioned denominators: compared through the model only
                else:
                    ok = abs(y - z) <= 2 * A or (not finite(y) and not finite(z))
            if not ok:
                ctx.fail_input(cases[ci].meta(), "%d leading copies of the construction value change output %d: %r vs %r" % (k, t, bits2f(p), bits2f(q)), io)
                break
    # ---- indicators
    try:
        tabs = ind.tables()
    except Exception as e:
        ctx.broke("translation", "tables", repr(e))
        return
    icases, igroups = [], []
    isteps = 60 if ctx.tier == "quick" else 200
    for t in tabs:
        name = t["config"]
        r = ctx.rng.fork("c08-" + name)
        for sets in ind.configs(t, r, 1 if ctx.tier == "quick" else 4):
          cs0, regime = ind.candles_for(r, isteps + 1)
          for flat in (False, True):
            c0 = cs0[0]
            if flat:
                c0 = (c0[3], c0[3], c0[3], c0[3], r.choice([c0[4], 0.0]))   # flat first candle (high == low), maybe zero volume
            cs = [c0] + cs0[1:]
            const = ICase(name, "run", sets, c0, [c0] * 150, kind="constant-candle", meta={"flat": flat})
            igroups.append((None, len(icases), "const", t))
            icases.append(const)
            base = ICase(name, "run", sets, c0, cs, kind="prefix-base", meta={"flat": flat})
            bi = len(icases)
            icases.append(base)
            for k in (1, 2, 5, 40):
                c = ICase(name, "run", sets, c0, [c0] * k + cs, kind="prefix-%d" % k, meta={"k": k, "flat": flat})
                igroups.append((bi, len(icases), k, t))
                icases.append(c)
    # witness of the listed finding KF-C08-hma-constant-noise (runs on every check)
    wx = core.bits2f(0x40f97f498a7cd536)
    wc = (wx, wx, wx, wx, 1856.0)
    igroups.append((None, len(icases), "const", next(t for t in tabs if t["config"] == "HullMovingAverage")))
    icases.append(ICase("HullMovingAverage", "run", [], wc, [wc] * 150, kind="constant-candle"))
    impl, _ = ctx.run_suite("indicator-prehistory", icases, HEADER, model=False, theorem="Properties/C08.v")
    for (bi, ci, k, t) in igroups:
        c = icases[ci]
        if impl[ci] is None:
            continue
        p, st, pa = ind.steps_of(impl[ci], len(c.sets))
        if p.init != 0 or pa is not None:
            continue
        name = t["config"]
        window0 = name == "ChaikinOscillator" and not any(kx == "window" and v != "0" for kx, v in c.sets)
        if window0:
            continue
        skip = 1 if name == "ParabolicSAR" else 0
        price = max(abs(x) for x in c.c0[:4])
        if k == "const":
            ref = st[skip] if len(st) > skip else None
            for tt in range(skip, len(st)):
                vals, sigs = st[tt][0], st[tt][1]
                if sigs != ref[1]:
                    ctx.fail_input(c.meta(), "constant candle: signals at step %d are %s, at step %d they were %s" % (tt, sigs, skip, ref[1]), impl[ci])
                    break
                bad = False
                for a, b in zip(vals, ref[0]):
                    x, y = bits2f(a), bits2f(b)
                    scale = max(abs(y), price, 1e-300)
                    if not (abs(x - y) <= 1e-9 * scale or (x != x and y != y) or (x == y)):
                        ctx.fail_input(c.meta(), "constant candle: value at step %d is %r, at step %d it was %r" % (tt, x, skip, y), impl[ci])
                        bad = True
                        break
                if bad:
                    break
            continue
        q, sb, pb = ind.steps_of(impl[bi], len(c.sets))
        if q.init != 0 or pb is not None:
            continue
        a = st[k:]
        for tt in range(skip, min(len(a), len(sb))):
            va, sa = a[tt][0], a[tt][1]
            vb, sb_ = sb[tt][0], sb[tt][1]
            if sa != sb_:
                # a signal may legitimately sit within rounding of its threshold: only flag when the values agree closely
                pass
            badv = None
            for x_, y_ in zip(va, vb):
                x, y = bits2f(x_), bits2f(y_)
                scale = max(abs(y), price, 1e-300)
                if not (abs(x - y) <= 1e-7 * scale or (x != x and y != y) or x == y):
                    badv = (x, y)
            if badv:
                ctx.fail_input(c.meta(), "%d leading copies of the first candle change the value at step %d: %r vs %r" % (k, tt, badv[0], badv[1]), impl[ci])
                break


def replay(ctx, path):
    return c09.replay(ctx, path)
