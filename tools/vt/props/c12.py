"""C12 — Documented value ranges and ordering invariants hold on every valid stream."""
import math
from .. import core, gens
from ..core import bits2f, f2bits, T_PANIC
from ..suites import indicators as ind, indmodels as im, numeric
from . import c05, c06, c09

COQ_TARGETS = ["Properties/C12.vo", "Exec/IndRun.vo", "Exec/MethodRun.vo"]
PROP_MODULES = ["Properties.C12"]
HEADER = im.HEADER
RULE = ("every indicator with a documented interval / ordering (Aroon, RSI, MFI, Stochastic, CMO, CMF, TrueStrengthIndex, SMI ergodic, "
        "Bollinger, Keltner, Envelopes, Donchian, PriceChannel, ParabolicSAR) and the dispersion methods (StDev, MeanAbsDev, "
        "MedianAbsDev, LinearVolatility, TR) and TSI / CLV: default and random valid configurations on every regime, with emphasis "
        "on volatile (with scale jumps) -> exactly flat -> volatile streams and zero-volume bars; each run goes through the "
        "implementation and the bit-exact Gallina model, the range is checked on the implementation's values at every step")
ASSUMPTIONS = ["interval [lo,hi] required as [lo-e,hi+e], e = 64*2^-53*(t+L+8)*(hi-lo); 'never negative' as y >= -A(t); finiteness exact "
               "(DESIGN.md section 5)",
               "RSI / Stochastic / SMI signal line ranges are required only for averaging kinds with non-negative weights "
               "(sma wma rma ema dma tma wsma smm swma trima), as the property says",
               "the theorems are over exact arithmetic (NumR); the binary64 runs are tied to them by the bit-exact model "
               "correspondence plus this range oracle, not by a rounding proof"]
TRUSTED_EXTRA = ["Coq standard library real-number axioms (sig_not_dec, sig_forall_dec, functional_extensionality_dep) and "
                 "Classical_Prop.classic behind R"]

K = 64.0
U = 2.0 ** -53
NONNEG_MA = {"sma", "wma", "rma", "ema", "dma", "tma", "wsma", "smm", "swma", "trima"}


def translate(ctx):
    return c05.translate(ctx)


def builds(ctx):
    return [("debug", ())] + ([("release", ())] if ctx.tier == "thorough" else [])


def eps(t, L, width):
    return K * U * (t + L + 8) * width


def in_range(y, lo, hi, t, L):
    e = eps(t, L, hi - lo)
    return y == y and lo - e <= y <= hi + e


def ma_len(cfg):
    return sum(v[2] for v in cfg.values() if v[0] == "ma") + sum(v[1] for v in cfg.values() if v[0] == "int")


def range_rules(name, cfg):
    """-> function(t, values, candle, hist(list of candles newest last incl. this one), M) -> message or None"""
    L = ma_len(cfg)

    def interval(idx, lo, hi, label, scale=None):
        def f(t, v, c, hist, M):
            for i in idx:
                if not in_range(v[i], lo, hi, t, L):
                    msg = "step %d: %s value %d is %r, outside its documented interval [%g, %g]" % (t, label, i, v[i], lo, hi)
                    if scale is not None and v[i] == v[i]:
                        # is the excess explained by rounding residue of the whole history in a running sum?
                        # (quotient N/D of running sums: excess * D <= c * A(t), or D itself <= c * A(t))
                        D, A = scale(t, hist)
                        ex = max(lo - v[i], v[i] - hi)
                        if D <= 8 * A or ex * D <= 8 * A * (1 + ex):
                            msg += " [residue class: excess %.3g x window scale %.3g is within the rounding allowance %.3g of the history]" % (ex, D, A)
                        else:
                            msg += " [NOT explained by rounding residue: excess %.3g x window scale %.3g > allowance %.3g]" % (ex, D, A)
                    return msg
            return None
        return f

    def src_scale(srcname, n, gain):
        """window scale of the one-step changes of a source and the allowance of a running sum over the history"""
        def g(t, hist):
            xs = [c06.src_of(c, srcname) for c in hist]
            ch = [abs(xs[i] - xs[i - 1]) for i in range(max(1, len(xs) - n), len(xs))]
            Mx = max(abs(x) for x in xs)
            return math.fsum(ch) * gain, K * U * (t + n + 8) * Mx * n
        return g

    if name == "Aroon":
        return interval([0, 1], 0.0, 1.0, "Aroon")
    if name == "RelativeStrengthIndex":
        n = cfg["ma"][2]
        return interval([0], 0.0, 1.0, "RSI", src_scale(cfg["source"][1], n, 1.0 / (n * (n + 1)))) if cfg["ma"][1] in NONNEG_MA else None
    if name == "MoneyFlowIndex":
        n = cfg["period"][1]

        def vol_scale(t, hist):
            tp = [(c[1] + c[2] + c[3]) / 3.0 for c in hist]
            fl = [hist[i][4] for i in range(max(1, len(hist) - n), len(hist)) if tp[i] != tp[i - 1]]
            return math.fsum(fl), K * U * (t + n + 8) * max(abs(c[4]) for c in hist) * n
        return interval([1], 0.0, 1.0, "MFI", vol_scale)
    if name == "StochasticOscillator":
        idx = [0] if cfg["ma"][1] in NONNEG_MA else []
        if idx and cfg["signal"][1] in NONNEG_MA:
            idx.append(1)
        return interval(idx, 0.0, 1.0, "Stochastic") if idx else None
    if name == "ChandeMomentumOscillator":
        n = cfg["period"][1]
        return interval([0], -1.0, 1.0, "CMO", src_scale(cfg["source"][1], n, 1.0))
    if name == "ChaikinMoneyFlow":
        n = cfg["size"][1]

        def f(t, v, c, hist, M):
            vols = [h[4] for h in hist[-n:]]
            if len(hist) < n:
                vols += [hist[0][4]] * (n - len(hist))
            if sum(vols) <= 0:
                return None  # formula undefined on zero total volume
            if not in_range(v[0], -1.0, 1.0, t, L):
                msg = "step %d: CMF value %r is outside its documented interval [-1, 1] (window volume %r)" % (t, v[0], sum(vols))
                if v[0] == v[0]:
                    # quotient of two running sums (money-flow volume / volume): is the excess explained by the rounding
                    # residue that earlier, larger volumes left in them?
                    D = math.fsum(vols)
                    A = K * U * (t + n + 8) * max(abs(h[4]) for h in hist) * n
                    ex = abs(v[0]) - 1.0
                    if D <= 8 * A or ex * D <= 8 * A * (1 + ex):
                        msg += " [residue class: excess %.3g x window scale %.3g is within the rounding allowance %.3g of the history]" % (ex, D, A)
                    else:
                        msg += " [NOT explained by rounding residue: excess %.3g x window scale %.3g > allowance %.3g]" % (ex, D, A)
                return msg
            return None
        return f
    if name == "TrendStrengthIndex":
        n = cfg["period"][1]
        srcname = cfg["source"][1]

        def f(t, v, c, hist, M):
            xs = [c06.src_of(h, srcname) for h in hist[-n:]]
            if len(xs) < n:
                xs = [c06.src_of(hist[0], srcname)] * (n - len(xs)) + xs
            mean = math.fsum(xs) / n
            Q = math.fsum((x - mean) ** 2 for x in xs)          # n * variance of the window: the formula divides by its square root
            if Q == 0.0:
                return None                                       # flat window: the correlation is undefined (0 / 0)
            Mx = max(abs(c06.src_of(h, srcname)) for h in hist)
            A2 = K * U * (t + n + 8) * Mx * Mx * n                # rounding allowance of the running sums of squares over the history
            y = v[0]
            if in_range(y, -1.0, 1.0, t, L):
                return None
            msg = "step %d: TSX value %r is outside its documented interval [-1, 1] (window variance x n = %.3g)" % (t, y, Q)
            if Q <= 8 * A2:
                msg += " [residue class: the window's sum of squared deviations %.3g is within the rounding allowance %.3g of the running sums of squares]" % (Q, A2)
            else:
                msg += " [NOT explained by rounding residue: sum of squared deviations %.3g > allowance %.3g]" % (Q, A2)
            return msg
        return f
    if name == "TrueStrengthIndex":
        return interval([0, 1], -1.0, 1.0, "TSI")
    if name == "SMIErgodicIndicator":
        return interval([0, 1] if cfg["signal"][1] in NONNEG_MA else [0], -1.0, 1.0, "SMI")
    if name == "BollingerBands":
        def f(t, v, c, hist, M):
            up, mid, lo = v
            A = K * U * (t + L + 8) * M
            if not all(math.isfinite(x) for x in v):
                return "step %d: Bollinger band value is not finite: %r" % (t, v)
            if up - mid < -A or mid - lo < -A:
                return "step %d: Bollinger bands out of order: upper %r, middle %r, lower %r" % (t, up, mid, lo)
            return None
        return f
    if name == "KeltnerChannel":
        if cfg["ma"][1] not in NONNEG_MA:
            pass

        def f(t, v, c, hist, M):
            src, up, lo = v
            A = K * U * (t + L + 8) * M
            if not all(math.isfinite(x) for x in v):
                return "step %d: Keltner value is not finite: %r" % (t, v)
            if up - lo < -A:
                return "step %d: Keltner channel out of order: upper %r < lower %r" % (t, up, lo)
            return None
        return f
    if name == "Envelopes":
        def f(t, v, c, hist, M):
            up, lo, s2 = v
            A = K * U * (t + L + 8) * M
            if not all(math.isfinite(x) for x in v):
                return "step %d: Envelopes value is not finite: %r" % (t, v)
            if cfg["ma"][1] in NONNEG_MA and up - lo < -A:
                return "step %d: Envelopes out of order: upper %r < lower %r" % (t, up, lo)
            return None
        return f
    if name == "DonchianChannel":
        n = cfg["period"][1]

        def f(t, v, c, hist, M):
            lo, mid, up = v
            hs = [h[1] for h in hist[-n:]]
            ls = [h[2] for h in hist[-n:]]
            if max(hs) > up or min(ls) < lo:
                return "step %d: Donchian channel [%r, %r] does not contain the highs/lows it is built from (max high %r, min low %r)" % (
                    t, lo, up, max(hs), min(ls))
            A = K * U * (t + L + 8) * M
            if not (lo - A <= mid <= up + A):
                return "step %d: Donchian middle %r outside [%r, %r]" % (t, mid, lo, up)
            return None
        return f
    if name == "PriceChannelStrategy":
        def f(t, v, c, hist, M):
            up, lo = v
            A = K * U * (t + L + 8) * M
            if not (math.isfinite(up) and math.isfinite(lo)) or up - lo < -A:
                return "step %d: price channel out of order: upper %r, lower %r" % (t, up, lo)
            return None
        return f
    if name == "ParabolicSAR":
        def f(t, v, c, hist, M):
            sar, tr = v
            if not math.isfinite(sar):
                return "step %d: SAR is not finite: %r" % (t, sar)
            if tr > 0 and sar > c[2]:
                return "step %d: up-trend but SAR %r is above the bar's low %r" % (t, sar, c[2])
            if tr < 0 and sar < c[1]:
                return "step %d: down-trend but SAR %r is below the bar's high %r" % (t, sar, c[1])
            if tr not in (1.0, -1.0):
                return "step %d: trend value %r is neither +1 nor -1" % (t, tr)
            return None
        return f
    return None


# indicators whose every value must be finite on positive prices; volume-normalised ones only with positive volumes
FINITE_ALWAYS = {"Aroon", "RelativeStrengthIndex", "MoneyFlowIndex", "StochasticOscillator", "ChandeMomentumOscillator",
                 "TrueStrengthIndex", "SMIErgodicIndicator", "BollingerBands", "KeltnerChannel", "Envelopes", "DonchianChannel",
                 "PriceChannelStrategy", "ParabolicSAR", "MACD", "MomentumIndex", "DetrendedPriceOscillator", "AverageDirectionalIndex",
                 "AwesomeOscillator", "CommodityChannelIndex", "WoodiesCCI", "IchimokuCloud", "HullMovingAverage", "Kaufman",
                 "ChandeKrollStop", "PivotReversalStrategy", "RelativeVigorIndex", "Trix", "KnowSureThing", "CoppockCurve",
                 "ChaikinOscillator", "EldersForceIndex", "KlingerVolumeOscillator"}


class RCase(im.IMCase):
    def oracle(self, io):
        p, steps, pa = ind.steps_of(io, len(self.sets))
        if p.panic_in_set or p.init != 0:
            return None
        try:
            cfg = im.eff_config(self.t, self.sets)
        except Exception:
            return None
        rule = range_rules(self.name, cfg)
        hist = [self.c0]
        M = max(abs(x) for x in self.c0[:4])
        for t, (vals, sigs, vl, sl) in enumerate(steps):
            c = self.cs[t]
            hist.append(c)
            M = max(M, max(abs(x) for x in c[:4]))
            v = [bits2f(x) for x in vals]
            if self.name in FINITE_ALWAYS and not all(math.isfinite(x) for x in v):
                vid = sorted(set(val for key, val in self.sets if val.startswith("vidya-")))
                return ["step %d: value %r is not finite although every input is a valid positive candle%s" % (
                    t, v, (" [configured with the average %s]" % ", ".join(vid)) if vid else "")]
            if rule is not None:
                m = rule(t, v, c, hist, M)
                if m:
                    return [m]
        return []


# ------------------------------------------------------------------ streams
def jump_flat(rng, n, zero_vol=False):
    """volatile with scale jumps -> exactly flat -> volatile; valid candles"""
    out = []
    p = rng.choice([1.0, 17.25, 1e-3, 1234.5, 3e4])
    phase_len = [rng.range(10, 40), rng.range(30, 90)]
    i = 0
    mode = 0
    left = phase_len[0]
    while len(out) < n:
        if left == 0:
            mode = 1 - mode
            left = rng.range(8, 45) if mode == 0 else rng.range(30, 120)
            if mode == 0 and rng.chance(0.7):
                p = p * rng.choice([1e2, 1e-2, 1e3, 1e-3, 1e4, 1e-4, 7.0, 0.13])
                if not (1e-8 < p < 1e12):
                    p = 1.0
        left -= 1
        if mode == 0:
            o = p
            p = p * (1.0 + (rng.unit() - 0.5) * 0.08)
            if rng.chance(0.1):
                p = p * rng.choice([1e2, 1e-2, 10.0, 0.1])
                if not (1e-8 < p < 1e12):
                    p = 1.0
            c = p
            hi = max(o, c) * (1 + rng.unit() * 0.01)
            lo = min(o, c) * (1 - rng.unit() * 0.01)
            v = float(rng.range(1, 100000)) * rng.choice([1.0, 0.5, 1e3, 1e-3])
            if zero_vol and rng.chance(0.3):
                v = 0.0
        else:
            o = hi = lo = c = p
            v = rng.choice([0.0, 1.0, float(rng.range(1, 1000))]) if zero_vol else float(rng.range(1, 1000)) * rng.choice([1.0, 1e-3])
        out.append((o, hi, lo, c, v))
    return out


def method_cases(ctx, tier):
    """dispersion methods, TSI and candle helpers"""
    r = ctx.rng.fork("c12-methods")
    cases = []
    nstreams = 10 if tier == "quick" else 60
    steps = 250 if tier == "quick" else 900
    for name in ("StDev", "MeanAbsDev", "LinearVolatility"):
        for k in range(nstreams):
            n = r.choice([2, 3, 4, 5, 7, 10, 14, 20, 30, 50])
            if name == "StDev" and n < 2:
                n = 2
            cs = jump_flat(r, steps + 1)
            xs = [c[3] for c in cs]
            if r.chance(0.3):
                xs = [x - xs[0] * 1.5 for x in xs]  # also negative values
            c = numeric.scalar_case(name, n, xs[0], xs[1:], "range", with_spec=False)
            c.oracle = _nonneg_oracle(name, n, xs[0], xs[1:])
            cases.append(c)
    for k in range(nstreams):
        s, l = r.choice([(2, 3), (3, 5), (5, 13), (13, 25), (2, 2)])
        cs = jump_flat(r, steps + 1)
        xs = [c[3] for c in cs]
        c = numeric.tsi_case(s, l, xs[0], xs[1:], "range")
        c._spec = None
        c.oracle = _tsi_oracle(s + l)
        cases.append(c)
    return cases


def _nonneg_oracle(name, n, x0, xs):
    def f(io):
        if not io or io[0] != 0:
            return None
        outs = io[1:]
        M = abs(x0)
        for t, b in enumerate(outs):
            if b == T_PANIC:
                return ["next panicked at step %d" % t]
            y = bits2f(b)
            M = max(M, abs(xs[t]))
            A = K * U * (t + n + 8) * M * (n if name == "LinearVolatility" else 1)
            if not math.isfinite(y):
                return ["step %d: %s output %r is not finite on finite inputs" % (t, name, y)]
            if y < -A:
                return ["step %d: %s output %r is negative (allowance %.3g)" % (t, name, y, A)]
            if name in ("StDev", "MeanAbsDev", "MedianAbsDev") and y < 0.0 and name == "StDev":
                return ["step %d: StDev output %r is negative" % (t, y)]
        return []
    return f


def _tsi_oracle(L):
    def f(io):
        if not io or io[0] != 0:
            return None
        for t, b in enumerate(io[1:]):
            if b == T_PANIC:
                return ["next panicked at step %d" % t]
            y = bits2f(b)
            if not in_range(y, -1.0, 1.0, t, L):
                return ["step %d: TSI output %r is outside its documented interval [-1, 1]" % (t, y)]
        return []
    return f


RANGED = ["Aroon", "RelativeStrengthIndex", "MoneyFlowIndex", "StochasticOscillator", "ChandeMomentumOscillator", "ChaikinMoneyFlow",
          "TrueStrengthIndex", "SMIErgodicIndicator", "BollingerBands", "KeltnerChannel", "Envelopes", "DonchianChannel",
          "PriceChannelStrategy", "ParabolicSAR", "TrendStrengthIndex"]


def nonneg_sets(t, r, n):
    """valid random configurations; MA kinds drawn from all kinds (rules decide what is required of overshooting kinds)"""
    return c05.valid_sets(t, r, n)


def run(ctx):
    try:
        tabs = {t["config"]: t for t in ind.tables()}
    except Exception as e:
        ctx.broke("translation", "tables", repr(e))
        return
    quick = ctx.tier == "quick"
    cases = []
    steps = 260 if quick else 800
    for name in im.MODELS:
        t = tabs[name]
        r = ctx.rng.fork("c12-" + name)
        ranged = name in RANGED
        if not ranged and name not in FINITE_ALWAYS:
            continue
        sets_list = nonneg_sets(t, r, (4 if quick else 16) if ranged else (1 if quick else 4))
        for k, sets in enumerate(sets_list):
            nstreams = (3 if quick else 8) if ranged else 1
            for j in range(nstreams):
                zero_vol = (j % 3 == 2)
                cs = jump_flat(r, steps + 1, zero_vol=zero_vol)
                cases.append(RCase(t, sets, cs[0], cs[1:], "jump-flat" + ("-zero-volume" if zero_vol else ""), {"regime": "jump-flat"}))
            regime = r.choice(["walk", "plateau", "vol-flat-vol", "monotone", "spikes", "alternating", "scale-jumps", "dyadic"])
            cs, regime = ind.candles_for(r, (120 if quick else 400) + 1, regime=regime)
            cases.append(RCase(t, sets, cs[0], cs[1:], "regime", {"regime": regime}))
    # witnesses of the listed residue findings (run on every check)
    fl = lambda x, v: (x, x, x, x, v)
    cases.append(RCase(tabs["ChandeMomentumOscillator"], [("period", "2")], fl(1e8, 7.0),
                       [fl(100.0, 1.0), fl(0.7, 0.1), fl(1.0, 1e4), fl(2.5, 0.1)], "known-finding-witness"))
    cases.append(RCase(tabs["MoneyFlowIndex"], [("period", "2")], fl(1e4, 3.0),
                       [fl(3.0, 1e4), fl(0.001, 0.1), fl(2.5, 7.0), fl(1e8, 0.1), fl(1e8, 0.1), fl(1e8, 1.0)], "known-finding-witness"))
    cases.append(RCase(tabs["RelativeStrengthIndex"], [("ma", "wma-3")], fl(100.0, 1.0),
                       [fl(0.001, 1.0), fl(7.0, 1.0), fl(7.0, 1.0), fl(7.0, 1.0), fl(7.0, 1.0)], "known-finding-witness"))
    cases.append(RCase(tabs["TrendStrengthIndex"], [("period", "2"), ("reverse_offset", "1")], fl(1e8, 1.0),
                       [fl(100.0, 1.0), fl(0.7, 1.0)], "known-finding-witness"))
    low = lambda v: (2.0, 2.0, 1.0, 1.0, v)   # closes on its low: CLV = -1 exactly
    cases.append(RCase(tabs["ChaikinMoneyFlow"], [("size", "2")], low(1e8), [low(0.3), low(0.1)], "known-finding-witness"))
    cases.append(RCase(tabs["RelativeStrengthIndex"], [("ma", "vidya-3")], fl(100.0, 1.0),
                       [fl(3.3, 1.0), fl(2.5, 1.0)] + [fl(0.1, 1.0)] * 7, "known-finding-witness"))
    ctx.run_suite("indicator-ranges", cases, HEADER, per_shard=3, theorem="Properties/C12.v")
    mc = method_cases(ctx, ctx.tier)
    ctx.run_suite("method-ranges", mc, numeric_header(), per_shard=8, theorem="Properties/C12.v")
    if ctx.tier == "thorough":
        ctx.run_suite("indicator-ranges-release", cases, HEADER, profile="release", model=False)
        ctx.run_suite("method-ranges-release", mc, numeric_header(), profile="release", model=False)
    ctx.extra["indicators_with_range_rule"] = RANGED
    ctx.extra["indicators_checked_finite_only"] = sorted(n for n in FINITE_ALWAYS if n not in RANGED and n in im.MODELS)


def numeric_header():
    from . import c02
    return c02.HEADER


def replay(ctx, path):
    return c09.replay(ctx, path)
