"""C07 — Accuracy does not decay with the length of the stream."""
import math
from .. import core, gens
from ..core import bits2f, f2bits, coq_float, T_PANIC
from ..suites import indicators as ind, indmodels as im
from . import c05, c06, c09, c12

COQ_TARGETS = ["Properties/C07.vo", "Exec/SoakRun.vo", "Exec/IndRun.vo"]
PROP_MODULES = ["Properties.C07"]
HEADER = ("From Yata Require Import Exec.IndRun Exec.SoakRun.\nFrom Coq Require Import Floats Uint63 NArith.\n"
          "Local Existing Instance PW8.\n")
RULE = ("LCG-generated streams (volatile -> exactly flat -> volatile phases with scale jumps 1, 1000, 2^-10, 30; the same integer LCG and "
        "binary64 operations in harness/src/soak.rs and coq/Exec/SoakRun.v) of 3*10^4 .. 10^6 steps (quick) / up to 10^7 (thorough) "
        "per method and indicator: implementation against the Gallina model bit-for-bit at logarithmically spaced positions, around "
        "every regime change, around positions 255 / 65535 and at the end, plus running checksums over ALL inputs and outputs; at every "
        "sampled position the long-lived instance is compared with a FRESH instance primed with the last W inputs and with the "
        "from-scratch definition on those inputs (selections, indices and signals exactly, arithmetic within A(t)); long monotone legs "
        "(> 255 consecutive new extremes) for every indicator against its model and the ParabolicSAR recursion")
ASSUMPTIONS = ["allowance A(t) = 64 * 2^-53 * (t + L + 8) * M_t * G (DESIGN.md section 5): linear in the number of steps, proportional to "
               "the magnitude of the whole history",
               "methods whose model uses the verified (slow) Flocq fma are run for fewer steps inside Coq than the fma-free ones; the "
               "implementation-only oracles (fresh instance, definition) run on the long streams for all of them",
               "exact-arithmetic theorems (Properties/C07.v) carry the unbounded quantifier; the binary64 runs are samples"]
TRUSTED_EXTRA = ["Coq standard library real-number axioms (sig_not_dec, sig_forall_dec, functional_extensionality_dep) and "
                 "Classical_Prop.classic behind R",
                 "the stream generators in harness/src/soak.rs and coq/Exec/SoakRun.v are two transcriptions of one definition; their "
                 "agreement is checked on every run through the input checksum and the sampled inputs"]

K = 64.0
U = 2.0 ** -53
SCALES = [1.0, 1000.0, 2.0 ** -10, 30.0]


def translate(ctx):
    return c05.translate(ctx)


def builds(ctx):
    return [("debug", ()), ("release", ())]


def hist_mag(t, P, base):
    ph = t // P
    return base * 1.6 * max(SCALES[(p // 2) % 4] for p in range(0, min(ph, 8) + 1))


def sample_positions(steps, P, n, dense=False):
    s = set()
    x = 1.0
    while x <= steps:
        s.add(int(x))
        x *= 1.35
    for k in range(1, steps // P + 1):
        if k <= 6 or k >= steps // P - 3:
            for d in (-1, 0, 1, 2, n - 1, n, n + 1, 2 * n + 1):
                s.add(k * P + d)
    for c in (255, 256, 65535, 65536):
        for d in range(-3, 4):
            s.add(c + d)
    for d in range(0, 25):
        s.add(steps - d)
    if dense:
        s.update(range(1, min(steps, 3000)))
        for k in range(1, steps // P + 1):
            if k <= 4:
                s.update(range(k * P - 30, k * P + 60))
        s.update(range(max(1, steps - 1500), steps + 1))
    return sorted(p for p in s if 1 <= p <= steps)


# ------------------------------------------------------------------ from-scratch definitions on the recent inputs (oldest first)
def d_sma(w, n):
    return math.fsum(w[-n:]) / n


def d_wma(w, n):
    r = w[-n:][::-1]
    return math.fsum((n - i) * r[i] for i in range(n)) / (n * (n + 1) / 2)


def d_linreg(w, n):
    r = w[-n:][::-1]
    sx = -n * (n - 1) / 2.0
    sxx = (n - 1) * n * (2 * n - 1) / 6.0
    sy = math.fsum(r)
    sxy = math.fsum(-i * r[i] for i in range(n))
    slope = (n * sxy - sx * sy) / (n * sxx - sx * sx)
    return (sy - slope * sx) / n


def d_stdev(w, n):
    r = w[-n:]
    m = math.fsum(r) / n
    return math.sqrt(math.fsum((x - m) ** 2 for x in r) / (n - 1))


def d_mad(w, n):
    r = w[-n:]
    m = math.fsum(r) / n
    return math.fsum(abs(x - m) for x in r) / n


def d_linvol(w, n):
    r = w[-(n + 1):]
    return math.fsum(abs(r[i + 1] - r[i]) for i in range(n))


def d_integral(w, n):
    return math.fsum(w[-n:])


def d_trima(w, n):
    return math.fsum(d_sma(w[:len(w) - j], n) for j in range(n)) / n


DEFS = {  # name -> (definition, inputs needed, class, gain)
    "SMA": (d_sma, lambda n: n, "A", lambda n: 1), "WMA": (d_wma, lambda n: n, "A", lambda n: 1),
    "LinReg": (d_linreg, lambda n: n, "A", lambda n: 8), "StDev": (d_stdev, lambda n: n, "Q", lambda n: 4),
    "MeanAbsDev": (d_mad, lambda n: n, "A", lambda n: 4), "LinearVolatility": (d_linvol, lambda n: n + 1, "A", lambda n: 2 * n),
    "Integral": (d_integral, lambda n: n, "A", lambda n: n), "TRIMA": (d_trima, lambda n: 2 * n, "A", lambda n: 2),
    "Momentum": (lambda w, n: w[-1] - w[-1 - n], lambda n: n + 1, "E", None),
    "RateOfChange": (lambda w, n: (w[-1] - w[-1 - n]) / w[-1 - n], lambda n: n + 1, "E", None),
    "Highest": (lambda w, n: max(w[-n:]), lambda n: n, "E", None), "Lowest": (lambda w, n: min(w[-n:]), lambda n: n, "E", None),
    "HighestLowestDelta": (lambda w, n: max(w[-n:]) - min(w[-n:]), lambda n: n, "E", None),
}
FRESH_ONLY = {"SWMA": ("A", lambda n: 1), "HMA": ("A", lambda n: 6), "Derivative": ("A", lambda n: 2)}


def newest_arg(r, better):
    """age (0 = newest) of the newest best element of r (oldest first)"""
    best, age = None, 0
    for i in range(len(r) - 1, -1, -1):
        a = len(r) - 1 - i
        if best is None or better(r[i], best):
            best, age = r[i], a
    return age


METHODS = {  # name -> (coq soak function, new, next, slow(fma) ?)
    "SMA": ("soak_scalar", "sma_new", "sma_next", False), "WMA": ("soak_scalar", "wma_new", "wma_next", True),
    "SWMA": ("soak_scalar", "swma_new", "swma_next", True), "TRIMA": ("soak_scalar", "trima_new", "trima_next", False),
    "HMA": ("soak_scalar", "hma_new", "hma_next", True), "LinReg": ("soak_scalar", "linreg_new", "linreg_next", True),
    "EMA": ("soak_scalar", "ema_new", "ema_next", True), "RMA": ("soak_scalar", "rma_new", "rma_next", True),
    "TEMA": ("soak_scalar", "tema_new", "tema_next", True),
    "Vidya": ("soak_scalar", "vidya_new", "vidya_next", True), "StDev": ("soak_scalar", "stdev_new", "stdev_next", True),
    "MeanAbsDev": ("soak_scalar", "mad_new", "mad_next", False),
    "LinearVolatility": ("soak_scalar", "linvol_new", "linvol_next", False),
    "Integral": ("soak_scalar", "integral_new", "integral_next", False),
    "Momentum": ("soak_scalar", "momentum_new", "momentum_next", False),
    "RateOfChange": ("soak_scalar", "roc_new", "roc_next", False),
    "Derivative": ("soak_scalar", "derivative_new", "derivative_next", False),
    "CCI": ("soak_scalar", "cci_new", "cci_next", False),
    "Highest": ("soak_scalar_o", "hl_new", "highest_next", False), "Lowest": ("soak_scalar_o", "hl_new", "lowest_next", False),
    "HighestLowestDelta": ("soak_scalar", "hld_new", "hld_next", False),
    "HighestIndex": ("soak_scalar_zo", "hli_new", "highest_index_next", False),
    "LowestIndex": ("soak_scalar_zo", "hli_new", "lowest_index_next", False),
}
REVERSALS = {"UpperReversalSignal": ("rev_new", "upper_rev_next"), "LowerReversalSignal": ("rev_new", "lower_rev_next"),
             "ReversalSignal": ("reversal_new", "reversal_next")}


def ilist(xs):
    return "[" + "; ".join(str(x) for x in xs) + "]%uint63"


class SoakCase:
    zero_loose = True
    exact = False
    nontrivial = True

    def __init__(self, name, params, seed, P, base, steps, W, samples, kind, model=True):
        self.name, self.params, self.seed, self.P, self.base, self.steps, self.W = name, params, seed, P, base, steps, W
        self.samples, self.kind, self.model = samples, kind, model

    def plan(self):
        return "%d %d %016x %d %d %d %s" % (self.seed, self.P, f2bits(self.base), self.steps, self.W, len(self.samples),
                                              " ".join(str(s) for s in self.samples))

    def cplan(self):
        return "%d%%uint63 %d%%uint63 %s %d%%N %s" % (self.seed, self.P, coq_float(self.base), self.steps, ilist(self.samples))

    def line(self):
        return "soak %s %s %s" % (self.name, " ".join(str(p) for p in self.params), self.plan())

    def term(self):
        if not self.model:
            return "[]"
        if self.name in REVERSALS:
            new, nxt = REVERSALS[self.name]
            return "soak_scalar_a (%s (%d) (%d)) %s %s" % (new, self.params[0], self.params[1], nxt, self.cplan())
        fn, new, nxt, _ = METHODS[self.name]
        return "%s %s %s (%d) %s" % (fn, new, nxt, self.params[0], self.cplan())

    def canon(self, io):
        return io[:io.index(-77)] if -77 in io else io

    def meta(self):
        return {"suite": "soak", "kind": self.kind, "entry": self.name, "params": list(self.params), "seed": self.seed,
                "phase_length": self.P, "steps": self.steps, "line": self.line()[:400000]}

    # per-sample width of the encoded output
    ow = 1

    def blocks(self, io):
        if not io or io[0] != 0 or -77 not in io:
            return None
        i = io.index(-77)
        b1, b2 = io[1:i - 2], io[i + 1:]
        s1 = {}
        for k in range(0, len(b1), 2 + self.ow):
            s1[b1[k]] = (b1[k + 1], b1[k + 2:k + 2 + self.ow])
        s2 = {}
        k = 0
        while k < len(b2):
            t, w = b2[k], b2[k + 1]
            ins = b2[k + 2:k + 2 + w]
            fresh = b2[k + 2 + w:k + 2 + w + self.ow]
            s2[t] = (ins, fresh)
            k += 2 + w + self.ow
        return s1, s2

    def oracle(self, io):
        if io and io[0] == T_PANIC:
            return ["the constructor panicked"]
        if io and io[-1] == T_PANIC and -77 not in io:
            return ["next panicked during the soak"]
        bl = self.blocks(io)
        if bl is None:
            return None
        s1, s2 = bl
        name = self.name
        res = []
        for t in sorted(s1):
            xb, ob = s1[t]
            ins, fresh = s2[t]
            w = [bits2f(b) for b in ins]
            if fresh and fresh[0] == T_PANIC:
                res.append("step %d: a fresh instance primed with the last %d inputs panicked" % (t, len(w)))
                break
            M = hist_mag(t, self.P, self.base)
            if name in REVERSALS or name in ("HighestIndex", "LowestIndex"):
                m = self.exact_sample(t, ob[0], fresh[0], w)
            else:
                m = self.arith_sample(t, bits2f(ob[0]), bits2f(fresh[0]), w, M)
            if m:
                res.append(m)
                if len(res) >= 2:
                    break
        return res

    def exact_sample(self, t, out, fresh, w):
        name = self.name
        if name in REVERSALS:
            left, right = self.params
            L = left + right + 1
            if len(w) < 2 * L + 2 or t < 2 * L + 2:
                return None
            win = w[-L:]
            up = 1 if newest_arg(win, lambda a, b: a > b) == right else 0
            lo = 1 if newest_arg(win, lambda a, b: a < b) == right else 0
            want = {"UpperReversalSignal": up, "LowerReversalSignal": lo, "ReversalSignal": lo - up}[name]
            enc = {1: 255, 0: 1000, -1: 2255}[want]
            if out != enc:
                return "step %d: %s(%d,%d) returns %d after a long past, the definition on the last %d inputs %r gives %d" % (
                    t, name, left, right, out, L, win, enc)
            if fresh != out:
                return "step %d: long-lived %s returns %d, a fresh instance primed with the last %d inputs returns %d" % (t, name, out, len(w), fresh)
            return None
        n = self.params[0]
        if len(w) < n or t < n:
            return None
        win = w[-n:]
        want = newest_arg(win, (lambda a, b: a > b) if name == "HighestIndex" else (lambda a, b: a < b))
        if out != want:
            return "step %d: %s(%d) returns %d after a long past, the definition on the last %d inputs gives %d" % (t, name, n, out, n, want)
        if fresh != out:
            return "step %d: long-lived %s returns %d, a fresh instance returns %d" % (t, name, out, fresh)
        return None

    def arith_sample(self, t, y, fr, w, M):
        name = self.name
        n = self.params[0]
        if name in DEFS:
            d, need, cls, gain = DEFS[name]
            if len(w) >= need(n) and t >= need(n):
                if name == "RateOfChange" and w[-1 - n] == 0:
                    return None
                want = d(w, n)
                if cls == "E":
                    if not (y == want or (y != y and want != want)):
                        return "step %d: %s(%d) returns %r after a long past, the definition on the recent inputs gives %r (exact class)" % (t, name, n, y, want)
                    if not (fr == y or (fr != fr and y != y)):
                        return "step %d: long-lived %s(%d) returns %r, a fresh instance primed with the last %d inputs returns %r" % (t, name, n, y, len(w), fr)
                    return None
                A = K * U * (t + n + 8) * M * gain(n)
                if cls == "Q":
                    A2 = K * U * (t + n + 8) * M * M * gain(n)
                    bad = not (math.isfinite(y) and y >= 0 and abs(y * y - want * want) <= A2)
                else:
                    bad = not (math.isfinite(y) and abs(y - want) <= A)
                if bad:
                    return "step %d: %s(%d) returns %r after a long past, the from-scratch definition on the last %d inputs gives %r (allowance %.3g)" % (
                        t, name, n, y, need(n), want, A)
                if not (math.isfinite(fr) and abs(fr - want) <= K * U * (len(w) + n + 8) * max(abs(v) for v in w) * gain(n) * (max(abs(v) for v in w) if cls == "Q" else 1) + (abs(want) if cls == "Q" else 0) * 1e-7):
                    if cls != "Q":
                        return "step %d: a FRESH %s(%d) primed with the last %d inputs returns %r, the definition gives %r" % (t, name, n, len(w), fr, want)
                return None
        if name in FRESH_ONLY and len(w) >= self.W and t > 4 * self.W:
            cls, gain = FRESH_ONLY[name]
            A = K * U * (t + n + 8) * M * gain(n)
            if not (math.isfinite(y) and abs(y - fr) <= A):
                return "step %d: long-lived %s(%d) returns %r, a fresh instance primed with the last %d inputs returns %r (allowance %.3g)" % (
                    t, name, n, y, len(w), fr, A)
        return None


class SoakInd(SoakCase):
    def __init__(self, t, sets, seed, P, base, steps, W, samples, kind, model=True, fresh=None):
        self.t = t
        self.sets = sets
        self.fresh = fresh
        super().__init__(t["config"], (), seed, P, base, steps, W, samples, kind, model)

    def line(self):
        s = " ".join("%s %s" % (ind.enc_val(k), ind.enc_val(v)) for k, v in self.sets)
        return "indicator %s soak %d %s %s" % (self.name, len(self.sets), s, self.plan())

    def term(self):
        if not self.model:
            return "[]"
        init, nxt = im.MODELS[self.name]
        cfg = im.eff_config(self.t, self.sets)
        return "soak_ind (fun c => %s c) %s %s" % (init(cfg), nxt, self.cplan())

    def meta(self):
        m = super().meta()
        m["sets"] = ["%s=%s" % kv for kv in self.sets]
        return m

    def oracle(self, io):
        if io and io[0] == T_PANIC:
            return ["init panicked"]
        if io and io[-1] == T_PANIC and -77 not in io:
            return ["next panicked during the soak"]
        if not io or io[0] != 0 or -77 not in io or self.fresh is None:
            return None
        i = io.index(-77)
        b1, b2 = io[1:i - 2], io[i + 1:]
        # block 1: t, xbits, nv, vals, ns, sigs
        s1 = {}
        k = 0
        while k < len(b1):
            t = b1[k]
            nv = b1[k + 2]
            vals = b1[k + 3:k + 3 + nv]
            ns = b1[k + 3 + nv]
            sigs = b1[k + 4 + nv:k + 4 + nv + ns]
            s1[t] = (vals, sigs)
            k += 4 + nv + ns
        k = 0
        res = []
        cfg = im.eff_config(self.t, self.sets)
        while k < len(b2):
            t, w = b2[k], b2[k + 1]
            cs = [tuple(bits2f(b) for b in b2[k + 2 + 5 * j:k + 7 + 5 * j]) for j in range(w)]
            k += 2 + 5 * w
            if b2[k] < 0:
                k += 1
                continue
            nv = b2[k]
            fv = b2[k + 1:k + 1 + nv]
            ns = b2[k + 1 + nv]
            k += 2 + nv + ns
            if t <= 4 * self.W:
                continue
            vals = s1[t][0]
            idx, scale = self.fresh(cfg)
            y, f = bits2f(vals[idx]), bits2f(fv[idx])
            if y == f or abs(y - f) <= 1e-9:
                continue
            M = hist_mag(t, self.P, self.base)
            D, A = scale(t, cs, M)
            ex = abs(y - f)
            msg = "step %d: long-lived %s returns %r, a fresh instance primed with the last %d candles returns %r" % (t, self.name, y, w, f)
            if D <= 8 * A or ex * D <= 8 * A * (1 + abs(y)):
                msg += " [residue class: difference %.3g x window scale %.3g is within the rounding allowance %.3g of the history]" % (ex, D, A)
            else:
                msg += " [NOT explained by rounding residue: difference %.3g x window scale %.3g > allowance %.3g]" % (ex, D, A)
            res.append(msg)
            if len(res) >= 2:
                break
        return res


def fresh_rules(name):
    """indicator -> function(cfg) -> (value index, scale(t, recent candles, history magnitude) -> (D, A))"""
    def src_scale(srcname, n, gain):
        def g(t, cs, M):
            xs = [c06.src_of(c, srcname) for c in cs]
            ch = [abs(xs[i] - xs[i - 1]) for i in range(max(1, len(xs) - n), len(xs))]
            return math.fsum(ch) * gain, K * U * (t + n + 8) * M * n
        return g
    if name == "ChandeMomentumOscillator":
        return lambda cfg: (0, src_scale(cfg["source"][1], cfg["period"][1], 1.0))
    if name == "RelativeStrengthIndex":
        return lambda cfg: (0, src_scale(cfg["source"][1], cfg["ma"][2], 1.0 / (cfg["ma"][2] * (cfg["ma"][2] + 1))))
    if name == "MoneyFlowIndex":
        def f(cfg):
            n = cfg["period"][1]

            def g(t, cs, M):
                tp = [(c[1] + c[2] + c[3]) / 3.0 for c in cs]
                fl = [cs[i][4] for i in range(max(1, len(cs) - n), len(cs)) if tp[i] != tp[i - 1]]
                return math.fsum(fl), K * U * (t + n + 8) * 1024.0 * n
            return (1, g)
        return f
    if name == "Aroon":
        return lambda cfg: (0, lambda t, cs, M: (1.0, 0.0))
    return None


# ------------------------------------------------------------------ long monotone legs (position counters)
trend_candles = gens.trend_candles


class UltraCase(c06.SCase):
    """implementation only: no panic at any step, and every signal is what the documented rule yields from the values"""
    def oracle(self, io):
        p, steps, pa = ind.steps_of(io, len(self.sets))
        if p.panic_in_set or p.init != 0:
            return None
        if pa is not None:
            return ["next panicked at step %d of a %d-bar stream (a counter or position kept in a narrow integer?)" % (pa, len(self.cs))]
        return super().oracle(io)


class UltraPsar(c05.PsarCase):
    def __init__(self, t, sets, c0, cs, kind, meta=None):
        super().__init__(t, sets, c0, cs, kind, meta, with_spec=False)

    def oracle(self, io):
        p, steps, pa = ind.steps_of(io, len(self.sets))
        if pa is not None and not p.panic_in_set and p.init == 0:
            return ["next panicked at step %d of a %d-bar stream (a counter or position kept in a narrow integer?)" % (pa, len(self.cs))]
        return super().oracle(io)


def run(ctx):
    try:
        tabs = {t["config"]: t for t in ind.tables()}
    except Exception as e:
        ctx.broke("translation", "tables", repr(e))
        return
    quick = ctx.tier == "quick"
    r = ctx.rng.fork("c07")
    fast_steps = 400000 if quick else 3000000
    slow_steps = 12000 if quick else 60000
    cases = []
    for name in METHODS:
        slow = METHODS[name][3]
        for rep in range(1 if quick else 3):
            n = r.choice([2, 3, 5, 9, 14, 20, 30] if not slow else [3, 5, 9, 14])
            if name == "StDev" or name == "LinReg" or name == "HMA":
                n = max(n, 3)
            steps = slow_steps if slow else fast_steps
            P = max(4 * n + 7, steps // r.choice([9, 13, 21]))
            W = 2 * n + 3
            dense = name in ("HighestIndex", "LowestIndex")
            cases.append(SoakCase(name, (n,), r.range(1, 2 ** 40), P, r.choice([100.0, 1.0, 37.5]), steps, W,
                                  sample_positions(steps, P, n, dense=dense), "soak-model"))
    for name in REVERSALS:
        for (l, rr) in ([(1, 1), (2, 3)] if quick else [(1, 1), (2, 3), (3, 1), (5, 5), (20, 10)]):
            steps = fast_steps // 4
            P = max(500, steps // 37)
            cases.append(SoakCase(name, (l, rr), r.range(1, 2 ** 40), P, 100.0, steps, 3 * (l + rr + 1) + 3,
                                  sample_positions(steps, P, l + rr + 1, dense=True), "soak-model-dense"))
    ctx.run_suite("soak-methods", cases, HEADER, per_shard=2, theorem="Properties/C07.v")
    # indicators named in the property + counters
    icases = []
    plan = [("ChandeMomentumOscillator", [[], [("period", "3")], [("period", "20")]]),
            ("MoneyFlowIndex", [[], [("period", "3")]]),
            ("RelativeStrengthIndex", [[("ma", "sma-14")], [("ma", "wma-5")], []]),
            ("ParabolicSAR", [[], [("af_step", "0.001"), ("af_max", "0.5")]]),
            ("Aroon", [[], [("period", "5")]]), ("WoodiesCCI", [[]]), ("ChaikinMoneyFlow", [[]]), ("BollingerBands", [[]]),
            ("PivotReversalStrategy", [[]]), ("StochasticOscillator", [[]])]
    for name, setss in plan:
        t = tabs[name]
        for sets in (setss[:2] if quick else setss):
            try:
                cfg = im.eff_config(t, sets)
            except Exception:
                continue
            slow = name in ("ParabolicSAR", "BollingerBands", "WoodiesCCI", "StochasticOscillator", "RelativeStrengthIndex") and not any(v.startswith("sma") for k, v in sets)
            steps = (slow_steps if slow else fast_steps // 4)
            L = c12.ma_len(cfg)
            P = max(4 * L + 7, steps // 11)
            # a recursive average forgets its past only geometrically: prime the fresh instance long enough for (1 - 2/(n+1))^W < 1e-30
            rec = any(v[0] == "ma" and v[1] in ("ema", "dma", "tma", "dema", "tema", "rma", "wsma", "vidya") for v in cfg.values())
            W = 40 * (L + 1) if rec else 3 * L + 6
            icases.append(SoakInd(t, sets, r.range(1, 2 ** 40), P, 100.0, steps, W, sample_positions(steps, P, L), "soak-indicator",
                                  fresh=fresh_rules(name)))
    ctx.run_suite("soak-indicators", icases, HEADER, per_shard=1, theorem="Properties/C07.v")
    # implementation alone on the longest streams (release build): fresh-instance and definition oracles
    long_steps = 2000000 if quick else 10000000
    lcases = []
    for name in list(DEFS) + list(FRESH_ONLY) + ["HighestIndex", "LowestIndex"]:
        n = r.choice([3, 9, 20, 50, 200])
        if name in ("TRIMA", "HMA"):
            n = min(n, 50)
        P = long_steps // r.choice([7, 11, 19])
        lcases.append(SoakCase(name, (n,), r.range(1, 2 ** 40), P, r.choice([100.0, 1.0]), long_steps, 2 * n + 3,
                               sample_positions(long_steps, P, n), "soak-long", model=False))
    for name in REVERSALS:
        lcases.append(SoakCase(name, (3, 2), r.range(1, 2 ** 40), long_steps // 13, 100.0, long_steps, 21,
                               sample_positions(long_steps, long_steps // 13, 6, dense=True), "soak-long", model=False))
    for name, setss in plan[:4]:
        t = tabs[name]
        cfg = im.eff_config(t, setss[0])
        L = c12.ma_len(cfg)
        lcases.append(SoakInd(t, setss[0], r.range(1, 2 ** 40), long_steps // 11, 100.0, long_steps, 3 * L + 6,
                              sample_positions(long_steps, long_steps // 11, L), "soak-long", model=False, fresh=fresh_rules(name)))
    # witnesses of the listed findings (fixed cases, run on every check)
    lcases.append(SoakCase("WMA", (3,), 552849892030, 181818, 100.0, 2000000, 9, sample_positions(2000000, 181818, 3),
                           "known-finding-witness", model=False))
    lcases.append(SoakCase("HMA", (9,), 875835458449, 285714, 1.0, 2000000, 21, sample_positions(2000000, 285714, 9),
                           "known-finding-witness", model=False))
    lcases.append(SoakInd(tabs["ChandeMomentumOscillator"], [], 763023982726, 9090, 100.0, 100000, 33, sample_positions(100000, 9090, 9),
                          "known-finding-witness", model=False, fresh=fresh_rules("ChandeMomentumOscillator")))
    lcases.append(SoakInd(tabs["RelativeStrengthIndex"], [("ma", "sma-14")], 411288658511, 9090, 100.0, 100000, 48,
                          sample_positions(100000, 9090, 14), "known-finding-witness", model=False,
                          fresh=fresh_rules("RelativeStrengthIndex")))
    ctx.run_suite("soak-long-implementation", lcases, HEADER, profile="release", model=False)
    # long monotone legs: > 255 consecutive new extremes (position / extreme counters), every indicator
    tcases = []
    legs = [(700, 0.002), (500, -0.002), (400, 0.01)]
    for name in im.MODELS:
        t = tabs[name]
        cs = trend_candles(r, legs)
        cls = c05.PsarCase if name == "ParabolicSAR" else c05.VCase
        tcases.append(cls(t, [], cs[0], cs[1:], "long-trend", {"regime": "monotone-legs"}, with_spec=False))
        if name == "ParabolicSAR":
            for sets in ([("af_step", "0.0005"), ("af_max", "0.2")], [("af_step", "0.001"), ("af_max", "0.5")]):
                tcases.append(cls(t, sets, cs[0], cs[1:], "long-trend-slow", {"regime": "monotone-legs"}, with_spec=False))
    ctx.run_suite("long-trends", tcases, im.HEADER, per_shard=2, theorem="Properties/C07.v")
    # constant input after a few huge values: the output may carry a constant rounding residue of the huge values (within the
    # allowance) but must not keep GROWING - a method whose error is re-added at every step drifts without bound
    from ..suites import numeric
    from ..suites.action import Simple
    dcases = []
    huge = [1e17, 12345678901234568.0, 12345678901234568.0]
    for name in ["SMA", "WMA", "SWMA", "TRIMA", "HMA", "LinReg", "EMA", "DMA", "TMA", "DEMA", "TEMA", "RMA", "WSMA", "Integral", "StDev",
                 "MeanAbsDev", "LinearVolatility", "Vidya"]:
        for n in (2, 3, 4, 5):
            if name in ("HMA", "LinReg", "StDev") and n < 2:
                continue
            xs = huge + [1.0] * (6 * n + 40)
            line = numeric.scalar_case(name, n, 1.0, xs, "drift-witness", with_spec=False).line()

            def orc(io, name=name, n=n, xs=xs):
                if not io or io[0] != 0:
                    return None
                ys = [core.bits2f(v) for v in io[1:]]
                tail = ys[-12:]
                if any(y != y or abs(y) == float("inf") for y in tail):
                    return None
                d = [tail[i + 1] - tail[i] for i in range(len(tail) - 1)]
                same = all(x > 1e-6 for x in d) or all(x < -1e-6 for x in d)
                # a steady increment (not the geometric fading of a recursive average)
                if same and min(abs(x) for x in d) >= 0.5 * max(abs(x) for x in d):
                    return ["%s(%d) keeps growing on constant input: after %d equal inputs the last outputs are %r, %r, %r (%+.4g per step)" % (
                        name, n, len(xs) - 3, tail[-3], tail[-2], tail[-1], d[-1])]
                return []
            dcases.append(Simple(line, None, "drift-witness", oracle=orc, extra={"entry": name, "length": n}))
    ctx.run_suite("drift-on-constant-input", dcases, HEADER, model=False, theorem="Properties/C07.v (C07_wma_drift_refuted, C07_linreg_drift_refuted, C07_swma_drift_refuted)")
    # one trend that lasts longer than any 16-bit counter (70000 bars on one side), then a reversal: the indicators that keep
    # integer counters / trend lengths (debug build: an overflowing counter panics; signals recomputed by the C06 rule oracle)
    ucases = []
    ulen = 70000
    ucs = trend_candles(ctx.rng.fork("c07-ultra"), [(ulen, 0.00004), (600, -0.003), (400, 0.004)])
    for name, setss in (("WoodiesCCI", [[], [("s1_lag", "3")]]), ("Aroon", [[], [("period", "5"), ("over_zone_period", "200")]]),
                        ("AwesomeOscillator", [[]]), ("ParabolicSAR", [[]]), ("CommodityChannelIndex", [[]])):
        for sets in setss:
            cls = UltraPsar if name == "ParabolicSAR" else UltraCase
            ucases.append(cls(tabs[name], sets, ucs[0], ucs[1:], "ultra-long-trend", {"regime": "one-sided-70000"}))
    ctx.run_suite("ultra-long-trends", ucases, im.HEADER, model=False, theorem="Properties/C07.v")
    ctx.extra["soak_steps"] = {"model_fast": fast_steps, "model_fma": slow_steps, "implementation_only": long_steps,
                               "one_sided_trend": ulen}


def replay(ctx, path):
    return c09.replay(ctx, path)
