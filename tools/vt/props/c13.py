"""C13 — Serialized snapshots restore behaviourally identical instances."""
import json
from .. import core
from ..core import T_PANIC, T_ERR
from ..suites import glue, window, indicators as ind
from ..suites.indicators import ICase
from . import c01, c09

COQ_TARGETS = ["Properties/C13.vo", "Exec/WindowRun.vo"]
PROP_MODULES = ["Properties.C13"]
HEADER = c01.HEADER
RULE = ("28 scalar methods and 36 indicators (default and random configurations): snapshot after k in {0,1,n-1,n,n+1,random} steps "
        "through a bit-preserving value tree (floats kept as bit patterns), restore, continue the restored instance and compare "
        "bit-for-bit with the uninterrupted run; the snapshot of a restored instance equals the original snapshot; configurations "
        "round-trip; Window: every capacity/rotation phase and malformed serialized forms (index = len, index > len, oversized "
        "buffers) against the Gallina model; distinct = distinct case lines")
ASSUMPTIONS = ["serde / serde_derive generate the structural codec for derived impls (modelled by Serde/Sval.v, not verified)",
               "the harness's value-tree Serializer/Deserializer is lossless (floats as bits); serde_json is not involved"]
TRUSTED_EXTRA = ["harness/src/vtree.rs (value-tree serde data format of the harness)"]


def translate(ctx):
    rc, out = ind.run_xlate()
    if rc != 0:
        ctx.broke("translation", "xlate", out[-2000:])


def builds(ctx):
    return [("debug", ())]


def run(ctx):
    # ---- Window: hand-written codec against the model (incl. adversarial forms)
    wcases = [c for c in window.gen(ctx.rng.fork("w"), ctx.tier) if c.kind.startswith("deser") or c.kind.startswith("serde")
              or "deser" in c.line() or "serde" in c.line()]
    for c in wcases:
        c.exact = True
    ctx.run_suite("window-serde", wcases, HEADER, theorem="Properties/C13.v (C13_window_roundtrip, C13_window_deserialize_total)")
    # ---- methods
    gcases = glue.gen(ctx.rng.fork("m"), ctx.tier, ["serde"]) + glue.gen_serde_each(ctx.rng.fork("me"), ctx.tier)
    ctx.run_suite("method-snapshots", gcases, "", model=False, theorem="Properties/C13.v")
    # ---- indicators
    try:
        tabs = ind.tables()
    except Exception as e:
        ctx.broke("translation", "tables", repr(e))
        return
    icases = []
    steps = 60 if ctx.tier == "quick" else 200
    for t in tabs:
        name = t["config"]
        r = ctx.rng.fork("c13-" + name)
        cs, regime = ind.candles_for(r, steps + 1)
        for sets in ind.configs(t, r, 1 if ctx.tier == "quick" else 5):
            base = ICase(name, "run", sets, cs[0], cs[1:], kind="plain")
            bi = len(icases)
            icases.append(base)
            ce = ICase(name, "serde_each", sets, cs[0], cs[1:], extra="6", kind="snapshot-each")
            ce.base = bi
            icases.append(ce)
            for at in sorted(set([0, 1, 2, 13, 14, 15, 26, r.range(0, steps), steps])):
                c = ICase(name, "serde", sets, cs[0], cs[1:], extra=str(at), kind="snapshot", meta={"at": at})
                c.base = bi
                icases.append(c)
    # every variant of the MAInstance enum (all 15 averaging kinds) inside an indicator, snapshot before every step
    for t in tabs:
        if t["config"] not in ("Envelopes", "RelativeStrengthIndex"):
            continue
        r = ctx.rng.fork("c13k-" + t["config"])
        cs, regime = ind.candles_for(r, 41)
        for sets in ind.ma_kind_configs(t):
            base = ICase(t["config"], "run", sets, cs[0], cs[1:], kind="plain")
            bi = len(icases)
            icases.append(base)
            ce = ICase(t["config"], "serde_each", sets, cs[0], cs[1:], extra="6", kind="snapshot-each")
            ce.base = bi
            icases.append(ce)
    impl, _ = ctx.run_suite("indicator-snapshots", icases, "", model=False, theorem="Properties/C13.v (C13_derives_complete, C13_struct_roundtrip)")
    for i, c in enumerate(icases):
        if not hasattr(c, "base") or impl[i] is None or impl[c.base] is None:
            continue
        q, steps_b, pb = ind.steps_of(impl[c.base], len(c.sets))
        if q.init != 0:
            continue
        p = ind.parse(impl[i], len(c.sets))
        if p.init != 0:
            ctx.fail_input(c.meta(), "init outcome differs between runs", impl[i])
            continue
        if c.variant == "serde_each":
            raw, pos, k, got = p.rest, 0, 0, []
            bad = None
            while pos < len(raw) and raw[pos] in (-5, -6, -7):
                if raw[pos] != -5 and bad is None:
                    bad = (k, raw[pos])
                st, _, _ = ind.parse_steps(raw[pos + 1:pos + 1 + 2 + raw[pos + 1] + 1 + raw[pos + 2 + raw[pos + 1]] + 2])
                if not st:
                    break
                got.append(st[0])
                pos += 1 + len(st[0][0]) + len(st[0][1]) + 4
                k += 1
            if bad is not None:
                ctx.fail_input(c.meta(), "snapshot before step %d: %s" % (bad[0], "the serialized instance is rejected by its own Deserialize" if bad[1] == -7
                               else "the restored instance does not continue bit-identically (or serializes differently)"), impl[i])
            d = ind.same_steps(got, steps_b, zero_loose=False)
            if d is not None and pb is None:
                ctx.fail_input(c.meta(), "serde_each transcript differs from the plain run at result %d" % d, impl[i])
            continue
        at = c.m["at"]
        first, _, rest = ind.parse_steps(p.rest)
        # layout: `at` results, then either an error code or two flags followed by the remaining results
        a, pa, tail = ind.parse_steps(p.rest)
        a = a[:at] if len(a) >= at else a
        # re-parse precisely: consume `at` results
        pos = 0
        pre = []
        raw = p.rest
        for _k in range(at):
            st, _, _ = ind.parse_steps(raw[pos:pos + 2 + raw[pos] + 1 + raw[pos + 1 + raw[pos]] + 2]) if pos < len(raw) and raw[pos] >= 0 else ([], None, [])
            if not st:
                break
            pre.append(st[0])
            pos += len(st[0][0]) + len(st[0][1]) + 4
        if pos >= len(raw):
            ctx.fail_input(c.meta(), "snapshot transcript is truncated", impl[i])
            continue
        if raw[pos] < 0 and raw[pos] not in (0, 1):
            kind = {T_ERR - 10: "serialization failed", T_PANIC - 10: "deserialization panicked", T_ERR - 20: "the serialized instance is rejected by its own Deserialize"}.get(raw[pos], "code %d" % raw[pos])
            ctx.fail_input(c.meta(), "snapshot after %d steps: %s" % (at, kind), impl[i])
            continue
        same_snap, cfg_rt = raw[pos], raw[pos + 1]
        post, pp, _ = ind.parse_steps(raw[pos + 2:])
        if same_snap != 1:
            ctx.fail_input(c.meta(), "snapshot after %d steps: the restored instance serializes to a different snapshot" % at, impl[i])
        if cfg_rt != 1:
            ctx.fail_input(c.meta(), "the configuration does not round-trip to an equal configuration", impl[i])
        if pp is not None:
            ctx.fail_input(c.meta(), "the restored instance panicked at step %d after the snapshot" % pp, impl[i])
            continue
        d = ind.same_steps(pre + post, steps_b, zero_loose=False)
        if d is not None:
            ctx.fail_input(c.meta(), "snapshot after %d steps: result %d of the restored instance differs from the uninterrupted run" % (at, d), impl[i])


def replay(ctx, path):
    return c09.replay(ctx, path)
