"""C05 — Indicator raw values equal the documented formulas."""
import math
from .. import core, gens
from ..core import bits2f, T_PANIC
from ..suites import indicators as ind, indmodels as im
from . import c09

COQ_TARGETS = ["Properties/C05.vo", "Exec/IndRun.vo"]
PROP_MODULES = ["Properties.C05"]
HEADER = im.HEADER
RULE = ("35 of the 36 indicators (all but FisherTransform, whose atanh is libm's) are run as Gallina models on binary64 against the "
        "implementation, bit-for-bit: default and random configurations (every MA kind appears), boundary periods, candle streams "
        "from every regime incl. flat stretches, gaps and zero-volume bars; for 23 indicators the published formula "
        "(Spec/IndicatorDefs.v), evaluated from scratch after every candle, is compared with the implementation's values under "
        "the rounding allowance; distinct = distinct case lines")
ASSUMPTIONS = ["FisherTransform is not modelled (glibc atanh is not correctly rounded); it is covered by the generic checks of C08-C13 only",
               "formula oracle for bounded quotient indicators runs on streams without exactly flat stretches (the ill-conditioned "
               "cases belong to C12's residue findings); the bit-exact model comparison runs on all regimes",
               "NumR theorems relate the indicator models to the formulas for the indicators named in Properties/C05.v; for the others "
               "the tie is model correspondence + formula oracle"]
TRUSTED_EXTRA = []
LIN_REGIMES = ["walk", "plateau", "vol-flat-vol", "monotone", "spikes", "scale-jumps"]
OSC_REGIMES = ["walk", "monotone", "spikes", "alternating"]


def translate(ctx):
    rc, out = ind.run_xlate()
    if rc != 0:
        ctx.broke("translation", "xlate", out[-2000:])


def builds(ctx):
    return [("debug", ())] + ([("release", ())] if ctx.tier == "thorough" else [])


class VCase(im.IMCase):
    def __init__(self, t, sets, c0, cs, kind, meta=None, with_spec=True):
        super().__init__(t, sets, c0, cs, kind=kind, meta=meta)
        self.with_spec = with_spec

    def spec_term(self):
        return im.spec_term_for(self) if self.with_spec else None

    def oracle2(self, io, so, ctx):
        p, steps, pa = ind.steps_of(io, len(self.sets))
        if p.panic_in_set or p.init != 0:
            return None
        if pa is not None:
            return ["next panicked at step %d" % pa]
        f, nv, kind = im.SPECS[self.name]
        res = []
        price = max(abs(x) for x in self.c0[:4])
        vol = abs(self.c0[4])
        worst = 0.0
        for t, (vals, sigs, vl, sl) in enumerate(steps):
            if (t + 1) * nv > len(so):
                break   # the formula is evaluated on a prefix of the stream (im.SPEC_STEPS); the model covers the rest
            c = self.cs[t]
            price = max(price, max(abs(x) for x in c[:4]))
            vol = max(vol, abs(c[4]))
            for j in range(nv):
                y = bits2f(vals[j])
                d = bits2f(so[t * nv + j])
                if not (math.isfinite(y) and math.isfinite(d)):
                    if math.isfinite(d) != math.isfinite(y) and kind == "lin":
                        res.append("step %d value %d: %r vs formula %r" % (t, j, y, d))
                    continue
                if kind == "lin":
                    tol = 1e-9 * (t + 30) * max(price, abs(d))
                elif kind == "osc":
                    tol = 1e-7 * max(1.0, abs(d))
                else:
                    tol = 1e-8 * (t + 30) * max(abs(d), price * vol * 300)
                worst = max(worst, abs(y - d) / tol if tol else 0)
                if abs(y - d) > tol:
                    res.append("step %d: value %d is %r, the published formula gives %r (allowance %.3g)" % (t, j, y, d, tol))
                    break
            if res:
                break
        ctx.extra.setdefault("max_error_over_allowance", {})
        ctx.extra["max_error_over_allowance"][self.name] = max(ctx.extra["max_error_over_allowance"].get(self.name, 0.0), round(worst, 5))
        return res


def psar_reference(step, mx, c0, cs):
    """Wilder's parabolic SAR as documented: the acceleration factor grows by af_step with every NEW extreme
    (strictly higher high / lower low) up to af_max; the SAR never enters the last two bars; reversal when crossed"""
    trend, inc = 1, 1
    low, high, sar = c0[2], c0[1], c0[2]
    ph, pl = c0[1], c0[2]
    out = []
    for c in cs:
        h, l = c[1], c[2]
        if trend > 0:
            if high < h:
                high, inc = h, inc + 1
            if l < sar:
                trend, low, inc, sar = -1, l, 1, high
        elif trend < 0:
            if low > l:
                low, inc = l, inc + 1
            if h > sar:
                trend, high, inc, sar = 1, h, 1, low
        out.append((sar, float(trend)))
        af = min(mx, step * inc)
        if trend > 0:
            sar = min(min(af * (high - sar) + sar, l), pl)
        else:
            sar = max(max(af * (low - sar) + sar, h), ph)
        ph, pl = h, l
    return out


class PsarCase(VCase):
    def oracle(self, io):
        p, steps, pa = ind.steps_of(io, len(self.sets))
        if p.panic_in_set or p.init != 0:
            return None
        cfg = im.eff_config(self.t, self.sets)
        ref = psar_reference(cfg["af_step"][1], cfg["af_max"][1], self.c0, self.cs)
        for t, ((vals, sigs, vl, sl), (sar, tr)) in enumerate(zip(steps, ref)):
            y, yt = bits2f(vals[0]), bits2f(vals[1])
            if yt != tr or abs(y - sar) > 1e-9 * max(abs(sar), 1e-300):
                return ["step %d: SAR %r / trend %r, the documented recursion gives %r / %r" % (t, y, yt, sar, tr)]
        return []


class PyMA:
    """independent reference of four averaging kinds (construction value = infinite constant prehistory)"""

    def __init__(self, kind, n, v):
        self.kind, self.n, self.w, self.y = kind, n, [v] * n, v

    def next(self, x):
        if self.kind in ("ema", "rma"):
            a = 2.0 / (self.n + 1) if self.kind == "ema" else 1.0 / self.n
            self.y = a * x + (1 - a) * self.y
            return self.y
        self.w = self.w[1:] + [x]
        if self.kind == "sma":
            return math.fsum(self.w) / self.n
        return math.fsum((i + 1) * v for i, v in enumerate(self.w)) / (self.n * (self.n + 1) / 2.0)   # wma


def adx_reference(cfg, c0, cs):
    """Wilder's directional movement as documented: +DM = up-move if it is the larger of the two moves and positive (STRICTLY
    larger: equal moves cancel), -DM likewise; DI = smoothed DM / smoothed true range; DX = |+DI - -DI| / (+DI + -DI); ADX = MA2(DX)"""
    k1, n1 = cfg["method1"][1], cfg["method1"][2]
    k2, n2 = cfg["method2"][1], cfg["method2"][2]
    p1 = cfg["period1"][1]
    tr_ma, pl, mi, ma2 = PyMA(k1, n1, c0[1] - c0[2]), PyMA(k1, n1, 0.0), PyMA(k1, n1, 0.0), PyMA(k2, n2, 0.0)
    hist = [c0] * p1
    prev_close = c0[3]
    out = []
    for c in cs:
        prev = hist[0]
        hist = hist[1:] + [c]
        tr = tr_ma.next(max(c[1], prev_close) - min(c[2], prev_close))
        if tr == 0.0:
            plus = minus = 0.0
        else:
            du, dd = c[1] - prev[1], prev[2] - c[2]
            plus = pl.next(du if (du > dd and du > 0) else 0.0) / tr
            minus = mi.next(dd if (dd > du and dd > 0) else 0.0) / tr
            prev_close = c[3]
        sm = plus + minus
        adx = ma2.next(0.0 if sm == 0.0 else abs(plus - minus) / sm)
        out.append((adx, plus, minus))
    return out


class AdxCase(VCase):
    def oracle(self, io):
        p, steps, pa = ind.steps_of(io, len(self.sets))
        if p.panic_in_set or p.init != 0:
            return None
        cfg = im.eff_config(self.t, self.sets)
        if cfg["method1"][1] not in ("ema", "rma", "sma", "wma") or cfg["method2"][1] not in ("ema", "rma", "sma", "wma"):
            return None
        ref = adx_reference(cfg, self.c0, self.cs)
        for t, ((vals, sigs, vl, sl), want) in enumerate(zip(steps, ref)):
            got = [bits2f(v) for v in vals]
            for j, (g, w) in enumerate(zip(got, want)):
                if not (math.isfinite(g) and math.isfinite(w)):
                    continue
                if abs(g - w) > 1e-7 * max(1.0, abs(w)):
                    return ["step %d: ADX value %d is %r, the documented directional-movement formula gives %r" % (t, j, g, w)]
        return []


def case_class(name):
    return PsarCase if name == "ParabolicSAR" else (AdxCase if name == "AverageDirectionalIndex" else VCase)


def valid_sets(t, r, n):
    out = [[]]
    tries = 0
    while len(out) < n + 1 and tries < 40:
        tries += 1
        sets = ind.random_config(t, r, 1 + r.below(3))
        try:
            im.eff_config(t, sets)
        except Exception:
            continue
        out.append(sets)
    return out


def run(ctx):
    try:
        tabs = {t["config"]: t for t in ind.tables()}
    except Exception as e:
        ctx.broke("translation", "tables", repr(e))
        return
    cases = []
    steps = 70 if ctx.tier == "quick" else 220
    nrand = 3 if ctx.tier == "quick" else 14
    for name in im.MODELS:
        t = tabs[name]
        r = ctx.rng.fork("c05-" + name)
        kind = im.SPECS.get(name, (None, 0, "lin"))[2]
        for k, sets in enumerate(valid_sets(t, r, nrand)):
            regimes = LIN_REGIMES if kind == "lin" else OSC_REGIMES
            regime = r.choice(regimes)
            cs, regime = ind.candles_for(r, steps + 1, regime=regime)
            cls = case_class(name)
            cases.append(cls(t, sets, cs[0], cs[1:], "values", {"regime": regime}, with_spec=name in im.SPECS))
        # every regime (incl. exactly flat stretches, zero volume) against the model only
        for regime in ("vol-flat-vol", "plateau", "scale-jumps", "dyadic"):
            cs, regime = ind.candles_for(r, steps + 1, regime=regime)
            cls = case_class(name)
            cases.append(cls(t, r.choice(valid_sets(t, r, 2)), cs[0], cs[1:], "values-model-only", {"regime": regime}, with_spec=False))
    # directed configurations (parameters that switch a different code path on) and quantised prices (multiples of 0.25:
    # differences of highs / lows are exact, so ties between them occur) for every indicator
    for name in im.MODELS:
        t = tabs[name]
        r = ctx.rng.fork("c05q-" + name)
        kind = im.SPECS.get(name, (None, 0, "lin"))[2]
        for sets in ind.DIRECTED.get(name, []) + ind.source_field_configs(t):
            cs, regime = ind.candles_for(r, steps + 1, regime=r.choice(LIN_REGIMES if kind == "lin" else OSC_REGIMES))
            cls = case_class(name)
            cases.append(cls(t, sets, cs[0], cs[1:], "values-directed", {"regime": regime}, with_spec=name in im.SPECS))
        cs, regime = ind.candles_for(r, (150 if ctx.tier == "quick" else 500) + 1, regime=r.choice(["walk", "plateau", "alternating"]))
        q = []
        for (o, h, l, c_, v) in cs:
            o, h, l, c_ = [round(x * 4.0) / 4.0 if abs(x) < 1e9 else x for x in (o, h, l, c_)]
            q.append((o, max(o, h, c_), min(o, l, c_), c_, float(int(v))))
        for sets in [[]] + ind.DIRECTED.get(name, [])[:1]:
            cls = case_class(name)
            cases.append(cls(t, sets, q[0], q[1:], "values-quantised", {"regime": regime}, with_spec=False))
    # every averaging kind of the MA constructor inside an indicator (dispatch of MA::init), against the model and the formula
    for name in ("Envelopes", "RelativeStrengthIndex"):
        t = tabs[name]
        r = ctx.rng.fork("c05k-" + name)
        cs, regime = ind.candles_for(r, steps + 1, regime=r.choice(LIN_REGIMES))
        for sets in ind.ma_kind_configs(t):
            cases.append(case_class(name)(t, sets, cs[0], cs[1:], "values-ma-kind", {"regime": regime}, with_spec=name in im.SPECS))
    # long monotone legs: a trend with many consecutive new extremes (acceleration of the parabolic SAR up to its cap and beyond)
    r = ctx.rng.fork("c05-trend")
    tc = gens.trend_candles(r, [(60, 0.004), (45, -0.005), (80, 0.01)])
    for sets in ([], [("af_step", "0.01"), ("af_max", "0.5")]):
        cases.append(PsarCase(tabs["ParabolicSAR"], sets, tc[0], tc[1:], "values-trend", {"regime": "monotone-legs"}, with_spec=False))
    ctx.run_suite("indicator-values", cases, HEADER, per_shard=3, theorem="Properties/C05.v")
    if ctx.tier == "thorough":
        ctx.run_suite("indicator-values-release", cases, HEADER, profile="release", model=False)
    ctx.extra["indicators_modelled"] = sorted(im.MODELS)
    ctx.extra["indicators_with_formula_oracle"] = sorted(im.SPECS)
    ctx.extra["indicators_not_modelled"] = ["FisherTransform"]


def replay(ctx, path):
    return c09.replay(ctx, path)
