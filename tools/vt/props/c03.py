"""C03 — Recursive methods follow their documented recurrences."""
from .. import core
from ..suites import numeric
from . import c02

COQ_TARGETS = ["Properties/C03.vo", "Exec/DefRun.vo"]
PROP_MODULES = ["Properties.C03"]
HEADER = c02.HEADER
NAMES = ["EMA", "DMA", "TMA", "DEMA", "TEMA", "RMA", "WSMA", "Integral0", "Vidya"]
PROVED = ["EMA", "DMA", "TMA", "DEMA", "TEMA", "RMA", "WSMA", "TSI", "TR", "HeikinAshi", "Integral0", "ADI0"]
RULE = c02.RULE + "; TSI: boundary and random (short,long) pairs incl. long plateaus; Vidya: one-step rule of DESIGN.md 5"
ASSUMPTIONS = [
    "rounding link measured, not proved",
    "theorems in Coq for: " + ", ".join(PROVED) + "; Vidya is covered by the bit-exact model correspondence and the one-step "
    "oracle only (its exact-arithmetic theorem is not in the development; on binary64 it is refuted: KF-C03-vidya-residue)",
]
TRUSTED_EXTRA = c02.TRUSTED_EXTRA


def builds(ctx):
    return [("debug", ())] + ([("release", ())] if ctx.tier == "thorough" else [])


def run(ctx):
    cases = numeric.gen_scalar(ctx.rng, ctx.tier, NAMES)
    cases += numeric.gen_other(ctx.rng, ctx.tier, ["TSI", "TR", "HeikinAshi", "ADI0"])
    # witness of the listed finding KF-C03-vidya-residue (runs on every check)
    cases.append(numeric.scalar_case("Vidya", 2, 0.5, [-0.06, 0.14, 0.48, 0.48, 0.48, 0.48], "known-finding-witness"))
    ctx.run_suite("recursive-methods", cases, HEADER, per_shard=12,
                  theorem="Properties/C03.v (recurrence_correct for " + ", ".join(PROVED) + ")")
    if ctx.tier == "thorough":
        ctx.run_suite("recursive-methods-release", cases, HEADER, profile="release", model=False)
    ctx.extra["methods_with_coq_theorem"] = PROVED


def replay(ctx, path):
    return numeric.replay(ctx, path, HEADER)
