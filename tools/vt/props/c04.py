"""C04 — Extremum, arg-extremum and median methods are exact selections."""
from ..suites import select, numeric
from . import c02

COQ_TARGETS = ["Properties/C04.vo", "Exec/SelectRun.vo"]
PROP_MODULES = ["Properties.C04"]
HEADER = ("From Yata Require Import Base.Prelude Base.Num Base.NumF64 Core.Window Core.Candle Core.Action Methods.Basic "
          "Methods.Select Exec.MethodRun Exec.ActionRun.\nFrom Coq Require Import Floats.\nLocal Existing Instance PW8.\n")
RULE = ("every order / bit-equality pattern: a de Bruijn sequence of order 5 (thorough 6) over the tie alphabet "
        "{-2,-1,-0.0,+0.0,1,2} contains every window content of length <= 4 (5) together with every entering element, run for "
        "every length 1..4 (5) and three construction values; plus random tie-heavy and ordinary streams for boundary and random "
        "lengths up to 254, rejected parameters and non-finite inputs; distinct = distinct case lines")
ASSUMPTIONS = [
    "the ordered-carrier laws (total pre-order, bit equality refines numeric equality, max/min return one of their arguments) "
    "are proved for the exact carrier and exercised exhaustively on binary64 over the tie alphabet; they are not proved for "
    "all binary64 values in Coq",
    "theorems in Coq for all seven: Highest, Lowest, HighestLowestDelta, HighestIndex, LowestIndex (newest-extreme tie rule), "
    "SMM (median of the last n, never panics) and MedianAbsDev (exact arithmetic; the binary64 model is tied bit-exactly)",
]
TRUSTED_EXTRA = c02.TRUSTED_EXTRA


def builds(ctx):
    return [("debug", ())] + ([("release", ())] if ctx.tier == "thorough" else [])


def run(ctx):
    cases = select.gen_select(ctx.rng, ctx.tier)
    ctx.run_suite("selection-methods", cases, HEADER, per_shard=8, theorem="Properties/C04.v")
    if ctx.tier == "thorough":
        ctx.run_suite("selection-methods-release", cases, HEADER, profile="release", model=False)


def replay(ctx, path):
    return numeric.replay(ctx, path, HEADER)
