"""C09 — Streaming, batch and chunked evaluation agree; clones are independent; peek = last output."""
import json
from .. import core
from ..core import T_PANIC
from ..suites import glue, indicators as ind
from ..suites.indicators import ICase

COQ_TARGETS = ["Properties/C09.vo"]
PROP_MODULES = ["Properties.C09"]
HEADER = ""
RULE = ("28 scalar methods x {over, call, apply, Sequence::apply, new_over, new_apply, into_fn, new_fn, random chunkings with empty "
        "chunks, WithHistory (incl. get), WithLastValue (incl. peek), clone at a random step with the original fed other data, two "
        "identical instances, peek after every step}; 36 indicators x {IndicatorInstance::over on random chunkings, clone, "
        "IndicatorConfig::over, into_fn, init_fn}; each transcript carries the plain next loop and is compared bit-for-bit; "
        "distinct = distinct case lines")
ASSUMPTIONS = ["the glue model of Api/Glue.v is a transcription of one-line default methods; its weight is carried by the suite",
               "#[derive(Clone)] is a deep copy of every field (no Rc/RefCell/raw pointer in any state struct; exercised by the clone cases)"]
TRUSTED_EXTRA = []


def builds(ctx):
    return [("debug", ())]


def run(ctx):
    cases = glue.gen(ctx.rng, ctx.tier, [v for v in glue.VARIANTS if v != "serde"])
    ctx.run_suite("method-glue", cases, HEADER, model=False,
                  theorem="Properties/C09.v (C09_over_is_next_loop, C09_chunked, C09_with_history, C09_with_last_value, C09_peek_*)")
    # ---- peek() = the output of the last next() for the peekable methods that are not scalar-in/scalar-out glue methods
    # (VWMA incl. windows of zero total volume, Conv, TSI, windowed and cumulative ADI)
    from ..suites import numeric
    from ..suites.action import Simple
    pcases = []
    for c in numeric.gen_other(ctx.rng.fork("peek-other"), ctx.tier, ["VWMA", "Conv", "ADI", "TSI"]):
        toks = c.line().split(" ")
        if toks[0] != "method" or toks[1] not in ("VWMA", "Conv", "ADI", "TSI") or c.kind.startswith("ctor"):
            continue
        line = " ".join(toks[:2] + ["peek"] + toks[2:])

        def orc(io, name=toks[1]):
            if not io or io[0] != 0:
                return None
            outs = io[1:]
            if outs and outs[-1] == core.T_PANIC:
                return None
            for t in range(len(outs) // 2):
                o, pk = outs[2 * t], outs[2 * t + 1]
                same = o == pk or (core.bits2f(o) != core.bits2f(o) and core.bits2f(pk) != core.bits2f(pk))
                if not same:
                    return ["%s: peek() after step %d returns %r, next() returned %r" % (name, t, core.bits2f(pk), core.bits2f(o))]
            return []
        pcases.append(Simple(line, None, "peek-" + c.kind, oracle=orc, extra={"entry": toks[1]}))
    # VWMA on a stream whose first window already has zero total volume, and a trading halt
    def vw(n, p0, ps):
        return "method VWMA peek %d %016x %016x %d %s" % (n, core.f2bits(p0[0]), core.f2bits(p0[1]), len(ps),
                                                          " ".join("%016x %016x" % (core.f2bits(a), core.f2bits(b)) for a, b in ps))
    halt = [(100.0 + i, 5.0) for i in range(6)] + [(107.0 + i, 0.0) for i in range(8)] + [(120.0, 3.0), (121.0, 0.0)]
    for n in (1, 2, 3, 5):
        for p0, ps in (((100.0, 0.0), [(101.0, 0.0), (102.0, 0.0), (103.0, 2.0), (104.0, 0.0)] + halt), ((50.0, 7.0), halt)):
            line = vw(n, p0, ps)
            pcases.append(Simple(line, None, "peek-zero-volume", oracle=pcases[0].oracle if pcases else None, extra={"entry": "VWMA"}))
    ctx.run_suite("method-peek-other", pcases, HEADER, model=False, theorem="Properties/C09.v (C09_peek_*)")
    # ---- indicators
    tabs = ind.tables() if _have_tables(ctx) else []
    icases = []
    steps = 80 if ctx.tier == "quick" else 300
    for t in tabs:
        name = t["config"]
        r = ctx.rng.fork("c09-" + name)
        cs, regime = ind.candles_for(r, steps + 1)
        for sets in ind.configs(t, r, 1 if ctx.tier == "quick" else 4):
            base = ICase(name, "run", sets, cs[0], cs[1:], kind="plain")
            bi = len(icases)
            icases.append(base)
            sizes = [r.choice([0, 0, 1, 2, 5, 13]) for _ in range(r.range(1, 7))]
            for variant, extra in (("chunk", "%d %s" % (len(sizes), " ".join(map(str, sizes)))),
                                   ("clone", str(r.range(0, steps))), ("intofn", "")):
                c = ICase(name, variant, sets, cs[0], cs[1:], extra=extra, kind="glue-" + variant)
                c.base = bi
                icases.append(c)
            # over / init_fn take the first candle of the sequence as the initial value
            base2 = ICase(name, "run", sets, cs[0], cs, kind="plain-first-as-init")
            bi2 = len(icases)
            icases.append(base2)
            for variant in ("over", "initfn"):
                c = ICase(name, variant, sets, cs[0], cs[1:], kind="glue-" + variant)
                c.base = bi2
                icases.append(c)
    impl, _ = ctx.run_suite("indicator-glue", icases, HEADER, model=False, theorem="Properties/C09.v (C09_chunked, C09_clone_independent)")
    for i, c in enumerate(icases):
        if not hasattr(c, "base") or impl[i] is None or impl[c.base] is None:
            continue
        p, steps_a, pa = ind.steps_of(impl[i], len(c.sets))
        q, steps_b, pb = ind.steps_of(impl[c.base], len(c.sets))
        if p.init != q.init:
            if c.variant in ("over", "initfn") and p.init is not None:
                # over/init_fn report init errors through their own Result: same outcome class expected
                pass
            ctx.fail_input(c.meta(), "%s: init outcome %s, plain run %s" % (c.variant, p.init, q.init), impl[i])
            continue
        if p.init != 0:
            continue
        if pa is not None and pb is None:
            ctx.fail_input(c.meta(), "%s panicked at step %d, the plain next loop does not" % (c.variant, pa), impl[i])
            continue
        d = ind.same_steps(steps_a, steps_b, zero_loose=False)
        if d is not None:
            ctx.fail_input(c.meta(), "%s: result %d differs from the element-by-element next loop (or %d results for %d inputs)"
                           % (c.variant, d, len(steps_a), len(steps_b)), impl[i])


def _have_tables(ctx):
    rc, out = ind.run_xlate()
    if rc != 0:
        ctx.broke("translation", "xlate", out[-1500:])
        return False
    return True


def replay(ctx, path):
    with open(path) as f:
        rec = json.load(f)
    core.build_harness("debug", ())
    for c in ([rec["case"]] if rec.get("case") else [b["case"] for b in rec.get("broken", []) if b.get("case")]):
        impl, err = core.run_harness([c["line"]])
        print("case:", c["line"][:400])
        print("what:", rec.get("what"))
        print("implementation:", (impl[0] or [])[:60], err or "")
    return 0
