"""C01 — Window is a faithful fixed-capacity FIFO."""
import json
from .. import core
from ..suites import window

COQ_TARGETS = ["Properties/C01.vo", "Exec/WindowRun.vo"]
PROP_MODULES = ["Properties.C01"]
HEADER = ("From Yata Require Import Base.Prelude Core.Window Exec.WindowRun.\n"
          "Local Existing Instance PW8.\n")
RULE = ("exhaustive small scope (every capacity 0..4 [thorough 0..6], every number of pushes 0..2n+1, every observer, "
        "every iterator split, from_parts/deserialize at every index, restore-and-continue) plus boundary capacities, "
        "malformed serialized forms and random op programs drawn from VERIF_SEED; a case is one constructor + op program; "
        "distinct = distinct case lines, all of them contain at least one observer")
ASSUMPTIONS = [
    "Vec/Box<[T]>/slice indexing and mem::replace have their list meaning",
    "serde_json renders the hand-written Serialize impl as {buf,index} and rejects out-of-range u8 fields",
    "element type: u64 labels stand for all T (the container is parametric)",
]


def builds(ctx):
    return [("debug", ())]


def run(ctx):
    cases = window.gen(ctx.rng, ctx.tier)
    for c in cases:
        c.exact = True  # every compared output is fixed by a C01 theorem (or is representation the theorems pin)
    ctx.run_suite("window", cases, HEADER, theorem="Properties/C01.v (C01_pushes, C01_get, C01_index, C01_iter, "
                  "C01_iter_last, C01_iter_rev, C01_empty, C01_from_parts, C01_serde_roundtrip, C01_deser_total)")


def replay(ctx, path):
    with open(path) as f:
        rec = json.load(f)
    ok, log = core.build_harness("debug", ())
    cases = rec.get("case") and [rec["case"]] or [b["case"] for b in rec.get("broken", []) if b.get("case")]
    for c in cases:
        line = c["line"]
        impl, err = core.run_harness([line])
        print("case:", line)
        print("implementation:", impl[0], err or "")
    return 0
