"""C10 — Invalid parameters are rejected with an error; accepted instances never panic."""
import json, math
from .. import core
from ..core import T_PANIC, T_ERR
from ..suites import numeric, select, texts, indicators as ind
from ..suites.indicators import ICase
from ..suites.action import Simple
from . import c04, c09

COQ_TARGETS = ["Properties/C10.vo", "Exec/DefRun.vo", "Exec/SelectRun.vo", "Exec/TextRun.vo"]
PROP_MODULES = ["Properties.C10"]
HEADER = ("From Yata Require Import Base.Prelude Base.Num Base.NumF64 Core.Window Core.Candle Core.Action Core.Strings Methods.Basic "
          "Methods.Select Spec.Hist Spec.MethodDefs Exec.MethodRun Exec.ActionRun Exec.DefRun Exec.TextRun.\n"
          "From Coq Require Import Floats.\nLocal Existing Instance PW8.\n")
RULE = ("ALL 256 values of PeriodType for every one-parameter method constructor (implementation outcome against the model's: "
        "Ok/Err/panic), boundary grid + random pairs for TSI and the reversal detectors, every MA kind x all 256 lengths through "
        "the MA constructor, non-finite construction values; every indicator with each period/MA/float parameter swept over "
        "boundary and special values followed by valid candles through every accepted instance; MA/Source parsing on "
        "grammar-based and adversarial Unicode texts against the string model; distinct = distinct case lines")
ASSUMPTIONS = ["u8::from_str, split_once, to_ascii_lowercase and str::trim are modelled on code points (validated by the text suite)",
               "indicator init/next totality is checked on the implementation over the swept parameter space; no Coq theorem covers the indicators"]
TRUSTED_EXTRA = []


def translate(ctx):
    rc, out = ind.run_xlate()
    if rc != 0:
        ctx.broke("translation", "xlate", out[-2000:])


def builds(ctx):
    return [("debug", ())] + ([("release", ())] if ctx.tier == "thorough" else [])


SPECIAL_F = ["NaN", "inf", "-inf", "0", "-0", "-1", "0.5", "1", "1.0000001", "2", "1e308", "5e-324", "0.999", "255", "1e-17"]
BOUND_P = ["0", "1", "2", "3", "126", "127", "128", "253", "254", "255"]


def run(ctx):
    rng = ctx.rng
    # ---- (a) every PeriodType value for every scalar constructor
    cases = []
    xs = [1.0, 2.5, 2.5, -1.0, 0.0, 3.0]
    for name in numeric.SCALAR:
        if name == "Integral0":
            continue
        for n in range(256):
            c = numeric.scalar_case(name, n, 1.5, xs, "ctor-all-256", with_spec=False)
            cases.append(c)
    for name in select.SEL:
        for n in range(256):
            cases.append(select.scalar_sel(name, n, 1.5, xs, "ctor-all-256"))
    # pairs
    r = rng.fork("pairs")
    grid = [0, 1, 2, 3, 125, 126, 127, 128, 252, 253, 254, 255]
    pairs = [(a, b) for a in grid for b in grid] + [(r.range(0, 255), r.range(0, 255)) for _ in range(60 if ctx.tier == "quick" else 600)]
    for (a, b) in pairs:
        cases.append(numeric.tsi_case(a, b, 1.5, xs, "ctor-pairs"))
        cases.append(select.rev_case(r.choice(["UpperReversalSignal", "LowerReversalSignal", "ReversalSignal"]), a, b, 1.5, [1.5] + xs, "ctor-pairs"))
    for n in list(range(0, 4)) + [253, 254, 255]:
        cases.append(numeric.vwma_case(n, (1.0, 2.0), [(2.0, 1.0), (3.0, 0.0)], "ctor-boundary"))
        cases.append(numeric.conv_case([1.0] * n, 1.0, [2.0, 3.0], "ctor-boundary"))
    # accepted instances never panic on valid streams: every method at several accepted lengths on finite streams full of signed
    # zeros, ties and sign changes (orderings and searches that treat -0.0 and +0.0 inconsistently corrupt their state and then
    # index out of range)
    zr = rng.fork("zeros")
    pool = [0.0, -0.0, 0.0, -0.0, 1.0, -1.0, 2.5, -2.5, 3.0, 5e-324, -5e-324]
    for name in list(numeric.SCALAR) + list(select.SEL):
        if name == "Integral0":
            continue
        for n in (2, 3, 4, 5, 6, 9):
            for rep in range(2):
                zs = [zr.choice(pool) for _ in range(90 if ctx.tier == "quick" else 400)]
                if name in select.SEL:
                    cases.append(select.scalar_sel(name, n, zr.choice(pool), zs, "zeros-and-ties"))
                else:
                    cases.append(numeric.scalar_case(name, n, zr.choice(pool), zs, "zeros-and-ties", with_spec=False))
    for c in cases:
        c.spec = None
        if hasattr(c, "_spec"):
            c._spec = None
    ctx.run_suite("constructors", cases, HEADER, per_shard=120,
                  theorem="Properties/C10.v (ctor_class ..., C10_requests_in_range)")
    _no_panic(ctx, cases, "constructors")
    if ctx.tier == "thorough":
        ctx.run_suite("constructors-release", cases, HEADER, profile="release", model=False)
    # ---- (b) MA constructor: every kind x every length
    mcases = []
    for k in range(15):
        for n in range(256):
            line = "text ma_init %d %d %016x %d %s" % (k, n, core.f2bits(1.5), len(xs), " ".join("%016x" % core.f2bits(x) for x in xs))
            c = Simple(line, "[]", "ma-init-all", exact=False, extra={"entry": "MA", "kind_index": k, "length": n})
            mcases.append(c)
    impl, _ = ctx.run_suite("ma-constructor", mcases, HEADER, model=False, theorem="Properties/C10.v (C10_ma_constructor_acceptance)")
    # the acceptance table of the theorem, evaluated inside Coq: [ma_rejects] for every kind x length of the parameter type
    kinds = "[KSMA; KWMA; KHMA; KRMA; KEMA; KDMA; KDEMA; KTMA; KTEMA; KWSMA; KSMM; KSWMA; KTRIMA; KLinReg; KVidya]"
    term = ("map (fun kn : ma_kind * Z => if ma_rejects (pw := PW8) (MAcfg (fst kn) (snd kn)) then 1 else 0) "
            "(list_prod %s (map Z.of_nat (seq 0 256)))" % kinds)
    hdr = ("From Coq Require Import ZArith List. Import ListNotations. Open Scope Z_scope.\n"
           "From Yata Require Import Base.Prelude Base.Num Core.Window Core.Strings Indicators.Common Proofs.Totality5.\n")
    tab, terr = core.run_coq_cases(hdr, [term], ctx.work, per_shard=1, tag="ma_accept_table")
    if terr or not tab or tab[0] is None or len(tab[0]) != 15 * 256:
        ctx.broke("correspondence", "ma-constructor", "the acceptance table of C10_ma_constructor_acceptance could not be evaluated: %s" % (terr or tab)[:500])
    else:
        for c, io in zip(mcases, impl):
            if not io or len(io) < 2 or io[1] == T_PANIC:
                continue
            k, n = c.extra["kind_index"], c.extra["length"]
            rejected = tab[0][k * 256 + n] == 1
            if (io[1] == T_ERR) != rejected:
                ctx.fail_input(c.meta(), "MA kind %s length %d: the constructor %s, the documented acceptance set (C10_ma_constructor_acceptance) says %s"
                               % (ind.MA_KINDS_BY_CODE[k], n, "returned Err" if io[1] == T_ERR else "returned an instance",
                                  "rejected" if rejected else "accepted"), io)
    for c, io in zip(mcases, impl):
        if io and T_PANIC in io:
            ctx.fail_input(c.meta(), "MA kind %d length %d: %s panicked" % (c.extra["kind_index"], c.extra["length"],
                           "init" if io[1] == T_PANIC else "next"), io)
        if io and io[0] != c.extra["length"]:
            ctx.fail_input(c.meta(), "ma_period() = %d for length %d" % (io[0], c.extra["length"]), io)
    # ---- (c) strings
    tcases = texts.gen(rng, ctx.tier)
    ctx.run_suite("parsers", tcases, HEADER, per_shard=200, theorem="Properties/C10.v (C10_parse_period_range); Core/Strings.v")
    # ---- (d) indicators: parameter sweeps, then valid candles through every accepted instance
    try:
        tabs = ind.tables()
    except Exception as e:
        ctx.broke("translation", "tables", repr(e))
        return
    icases = []
    steps = 60 if ctx.tier == "quick" else 250
    for t in tabs:
        name = t["config"]
        r = rng.fork("c10-" + name)
        cs, regime = ind.candles_for(r, steps + 1, regime=r.choice(["walk", "plateau", "vol-flat-vol", "spikes"]))
        pub = [f for f in t["fields"] if f["public"]]
        for f in pub:
            if f["ty"] in ("PeriodType", "u8"):
                vals = BOUND_P
            elif f["ty"] == "ValueType":
                vals = SPECIAL_F
            elif f["ty"] == "M":
                vals = ["%s-%s" % (k, n) for k in ("sma", "ema", "wsma", "hma", "vidya", "smm", "linreg", "swma", "rma") for n in ("0", "1", "2", "127", "128", "254", "255")]
                if ctx.tier == "quick":
                    vals = [v for i, v in enumerate(vals) if i % 3 == r.below(3)]
            else:
                continue
            for v in vals:
                icases.append(ICase(name, "run", [(f["name"], v)], cs[0], cs[1:], kind="param-sweep",
                                    meta={"field": f["name"], "text": v, "regime": regime}))
        # two-parameter boundary combinations
        pf = [f for f in pub if f["ty"] in ("PeriodType", "u8")]
        for _ in range(6 if ctx.tier == "quick" else 40):
            if len(pf) >= 2:
                a, b = ind.rng_sample(r, pf, 2)
                icases.append(ICase(name, "run", [(a["name"], r.choice(BOUND_P)), (b["name"], r.choice(BOUND_P))], cs[0], cs[1:],
                                    kind="param-sweep-2", meta={"regime": regime}))
        # non-finite / invalid first candle
        bad = (float("nan"), cs[0][1], cs[0][2], cs[0][3], cs[0][4])
        icases.append(ICase(name, "run", [], cs[0], cs[1:6], kind="default"))
        # long one-sided streams (a noisy trend that never reverses, then the opposite one): counters of peaks, bars and trend
        # lengths pass every 8-bit bound; the debug build panics on an overflowing counter
        from .. import gens
        legs = [(3000, 0.0008), (3000, -0.0008)] if ctx.tier == "quick" else [(9000, 0.0004), (9000, -0.0004), (300, 0.003)]
        tcs = gens.trend_candles(rng.fork("c10-trend-" + name), legs)
        for sets in [[]] + [list(x) for x in ind.DIRECTED.get(name, [])][:1]:
            icases.append(ICase(name, "run", sets, tcs[0], tcs[1:], kind="long-one-sided", meta={"regime": "one-sided-trend"}))
    impl, _ = ctx.run_suite("indicator-parameters", icases, HEADER, model=False, theorem="Properties/C10.v")
    for c, io in zip(icases, impl):
        if io is None:
            continue
        p = ind.parse(io, len(c.sets))
        if p.panic_in_set:
            ctx.fail_input(c.meta(), "set(%s) panicked" % (c.sets,), io)
            continue
        if p.init == T_PANIC:
            ctx.fail_input(c.meta(), "init panicked for %s (validate() = %s)" % (c.sets, p.valid), io)
            continue
        if p.valid == 0 and p.init == 0:
            ctx.fail_input(c.meta(), "validate() is false but init returned Ok for %s" % (c.sets,), io)
        if p.init == 0:
            st, pa, _ = ind.parse_steps(p.rest)
            if pa is not None:
                ctx.fail_input(c.meta(), "accepted instance (%s) panicked in next at step %d" % (c.sets, pa), io)


def _no_panic(ctx, cases, suite):
    pass  # panics of constructors/next surface as correspondence differences (model: Err/Ok) and through the oracles


def replay(ctx, path):
    return c09.replay(ctx, path)
