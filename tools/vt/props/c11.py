"""C11 — Indicator interface contract: result shape, dynamic dispatch and string setters."""
import json
from .. import core
from ..suites import indicators as ind
from ..suites.indicators import ICase
from ..core import T_PANIC, T_ERR

COQ_TARGETS = ["Properties/C11.vo"]
PROP_MODULES = ["Properties.C11"]
HEADER = ""
RULE = ("for every indicator of the crate (table re-generated from the source): default and random configurations run through "
        "the static and the dyn interface on valid candle streams (shape of every result against size(), name, dyn == static "
        "bit-for-bit); set() with every public parameter name and well-formed values (exactly that stored field changes), "
        "with malformed values and with unknown names (Err and configuration unchanged); distinct = distinct case lines")
ASSUMPTIONS = ["tools/xlate.py renders the declarative fragment faithfully (cross-checked: the harness executes set/size/name/"
               "validate/default on the implementation and the results are compared with the table semantics)",
               "str::parse::<u8|f64|bool>, Source::from_str, MA::from_str are abstracted as a total boolean `parses` in the theorem"]
TRUSTED_EXTRA = ["tools/xlate.py (translator of the configuration tables; refuses unknown source shapes)"]
COQCHK = True


def translate(ctx):
    rc, out = ind.run_xlate()
    ctx.log(out.strip())
    if rc != 0:
        ctx.broke("translation", "xlate", out[-2000:])


def builds(ctx):
    return [("debug", ())]


UNKNOWN_NAMES = ["", "Period", "PERIOD", "period ", " period", "perio", "periods", "cfg", "source3", "ma0", "zóne", "signal_zone_",
                 "window_", "conseq", "k2", "size1", "名前"]


def run(ctx):
    try:
        tabs = ind.tables()
    except Exception as e:
        ctx.broke("translation", "tables", "no generated tables: %r" % e)
        return
    rng = ctx.rng
    cases = []
    oracles = {}
    steps = 100 if ctx.tier == "quick" else 400
    nrand = 2 if ctx.tier == "quick" else 10
    for t in tabs:
        name = t["config"]
        r = rng.fork("c11-" + name)
        cs, regime = ind.candles_for(r, steps + 1)
        # --- static vs dyn, shape
        for sets in ind.configs(t, r, nrand):
            a = ICase(name, "run", sets, cs[0], cs[1:], kind="shape-run", meta={"regime": regime})
            b = ICase(name, "dyn", sets, cs[0], cs[1:], kind="shape-dyn", meta={"regime": regime})
            a.pair, b.pair = len(cases) + 1, len(cases)
            cases += [a, b]
        # --- set(): every public name, well-formed and malformed values; unknown names
        base = ICase(name, "run", [], cs[0], cs[1:3], kind="set-baseline")
        base_idx = len(cases)
        cases.append(base)
        pub = [f for f in t["fields"] if f["public"]]
        order = [f["name"] for f in t["fields"]]
        for f in pub:
            for k in range(2 if ctx.tier == "quick" else 6):
                v = ind.value_for(f["ty"], r, True)
                c = ICase(name, "run", [(f["name"], v)], cs[0], cs[1:3], kind="set-valid",
                          meta={"field": f["name"], "field_index": order.index(f["name"]), "type": f["ty"], "text": v})
                c.base = base_idx
                cases.append(c)
                c2 = ICase(name, "dyn", [(f["name"], v)], cs[0], cs[1:3], kind="set-valid-dyn",
                           meta={"field": f["name"], "field_index": order.index(f["name"]), "type": f["ty"], "text": v})
                c2.base = base_idx
                cases.append(c2)
            for v in ind.malformed_values(f["ty"]):
                c = ICase(name, "run", [(f["name"], v)], cs[0], cs[1:3], kind="set-maybe-malformed",
                          meta={"field": f["name"], "field_index": order.index(f["name"]), "type": f["ty"], "text": v})
                c.base = base_idx
                cases.append(c)
        for un in UNKNOWN_NAMES + [f["name"].upper() for f in pub[:2]] + [f["name"] + "x" for f in pub[:2]]:
            if un in [f["name"] for f in pub]:
                continue
            c = ICase(name, r.choice(["run", "dyn"]), [(un, r.choice(["5", "0.5", "close", "sma-5", "true"]))], cs[0], cs[1:3],
                      kind="set-unknown-name", meta={"name": un})
            c.base = base_idx
            cases.append(c)
    impl, _ = ctx.run_suite("indicator-interface", cases, HEADER, model=False,
                            theorem="Properties/C11.v (C11_tables_ok, C11_set_exact, C11_every_public_parameter_settable)")
    # ---- IndicatorResult::new for every count of values / signals 0..8: the announced lengths are min(4, count), the slices have
    # exactly that many entries (no panic when reading them) and hold the leading inputs
    from ..suites.action import Simple
    rcases = []
    for nv in range(0, 9):
        for ns in range(0, 9):
            def orc(io, nv=nv, ns=ns):
                ev, es = min(4, nv), min(4, ns)
                if not io or io[0] != 0:
                    return ["IndicatorResult::new(%d values, %d signals) panicked" % (nv, ns)]
                if core.T_PANIC in io:
                    return ["reading values()/signals() of IndicatorResult::new(%d values, %d signals) panicked (announced lengths %s)" % (nv, ns, io[1:5])]
                if len(io) > 8 and io[8] != 1:
                    return ["IndicatorResult::new(%d values, %d signals): value(i)/signal(i) disagree with the values()/signals() slices "
                            "(an announced index panics or returns another element, or an index beyond the announced length does not panic)" % (nv, ns)]
                if io[1:7] != [ev, es, ev, es, ev, es] or io[7] != 1:
                    return ["IndicatorResult::new(%d values, %d signals): announced lengths / size() / slice lengths / contents are %s, "
                            "expected %s with the leading inputs" % (nv, ns, io[1:8], [ev, es, ev, es, ev, es, 1])]
                return []
            rcases.append(Simple("iresult %d %d" % (nv, ns), None, "result-new", oracle=orc, extra={"values": nv, "signals": ns}))
    ctx.run_suite("indicator-result-new", rcases, HEADER, model=False, theorem="Properties/C11.v (C11_result_new_shape)")
    # ---- oracles over the transcripts
    parsed = [ind.parse(o, len(c.sets)) if o else None for c, o in zip(cases, impl)]
    for i, (c, p) in enumerate(zip(cases, parsed)):
        if p is None:
            continue
        meta = c.meta()
        t = next(x for x in tabs if x["config"] == c.name)
        if p.panic_in_set:
            ctx.fail_input(meta, "set(%s) panicked" % (c.sets,), impl[i])
            continue
        if tuple(p.size) != tuple(t["size"]) or p.name_ok != 1:
            ctx.fail_input(meta, "size()/name() = %s/%s differ from the declared (%s, NAME)" % (p.size, p.name_ok, t["size"]), impl[i])
        if c.kind in ("shape-run", "shape-dyn"):
            if not c.sets and (p.valid != 1 or p.init != 0):
                ctx.fail_input(meta, "the default configuration is not valid or does not initialise (validate=%s, init=%s)" % (p.valid, p.init), impl[i])
            if p.init == T_PANIC:
                ctx.fail_input(meta, "init panicked", impl[i])
            if p.init != 0:
                continue
            steps_, panic_at, tail = ind.parse_steps(p.rest)
            if panic_at is not None:
                ctx.fail_input(meta, "next panicked at step %d" % panic_at, impl[i])
            for k, (vals, sigs, vl, sl) in enumerate(steps_):
                if (len(vals), len(sigs)) != tuple(p.size) or (vl, sl) != tuple(p.size):
                    ctx.fail_input(meta, "step %d: result carries %d values / %d signals (declared lengths %d/%d), size() announces %s"
                                   % (k, len(vals), len(sigs), vl, sl, p.size), impl[i])
                    break
            if c.kind == "shape-dyn":
                q = parsed[c.pair]
                if q is not None and q.init == 0:
                    s2, _, _ = ind.parse_steps(q.rest)
                    d = ind.same_steps(steps_, s2, zero_loose=False)
                    if d is not None or p.fields != q.fields or p.valid != q.valid:
                        ctx.fail_input(meta, "dynamically dispatched configuration/instance differs from the static one (first differing step %s)" % d, impl[i])
                    if len(tail) < 2 or tail[-2] != 1:
                        ctx.fail_input(meta, "dyn instance reports another size()/name() than its configuration", impl[i])
                    if len(tail) < 2 or tail[-1] != 1:
                        ctx.fail_input(meta, "IndicatorConfigDyn::over differs from IndicatorConfig::over on the same %d candles "
                                             "(number of results or a result)" % (len(c.cs) + 1), impl[i])
                elif q is not None and q.init != p.init:
                    ctx.fail_input(meta, "dyn init outcome %s differs from static %s" % (p.init, q.init), impl[i])
        elif c.kind.startswith("set-") and c.kind != "set-baseline":
            b = parsed[c.base]
            if b is None or len(p.set_results) != 1:
                continue
            res = p.set_results[0]
            changed = [k for k, (x, y) in enumerate(zip(p.fields, b.fields)) if x != y]
            if res == 2:
                ctx.fail_input(meta, "set returned Err but the configuration changed (fields %s)" % changed, impl[i])
            elif res == 1 and changed:
                ctx.fail_input(meta, "set returned Err and the stored configuration differs from the default (fields %s)" % changed, impl[i])
            elif c.kind == "set-unknown-name" and res == 0:
                ctx.fail_input(meta, "set with the unknown name %r returned Ok" % c.m.get("name"), impl[i])
            elif c.kind in ("set-valid", "set-valid-dyn", "set-maybe-malformed"):
                fi = c.m["field_index"]
                if res == 0 and any(k != fi for k in changed):
                    ctx.fail_input(meta, "set(%r, %r) changed field(s) %s, not only field %d" % (c.m["field"], c.m["text"], changed, fi), impl[i])
                if c.kind != "set-maybe-malformed" and res != 0:
                    ctx.fail_input(meta, "set(%r, %r) with a well-formed value returned Err" % (c.m["field"], c.m["text"]), impl[i])
                if res == 0:
                    exp = expected_flat(c.m["type"], c.m["text"])
                    if exp is not None and p.fields[fi] != exp:
                        ctx.fail_input(meta, "set(%r, %r) stored %s, the parsed value is %s" % (c.m["field"], c.m["text"], p.fields[fi], exp), impl[i])
                    if exp is None and c.m["type"] in ("PeriodType", "u8", "ValueType", "bool") and not parses(c.m["type"], c.m["text"]):
                        ctx.fail_input(meta, "set(%r, %r) accepted a text that is not a %s" % (c.m["field"], c.m["text"], c.m["type"]), impl[i])


def parses(ty, text):
    if ty in ("PeriodType", "u8"):
        s = text[1:] if text.startswith("+") else text
        return s.isdigit() and s.isascii() and int(s) <= 255
    if ty == "bool":
        return text in ("true", "false")
    if ty == "ValueType":
        try:
            float(text)
            return text.strip() == text and "_" not in text
        except ValueError:
            return False
    return True


def expected_flat(ty, text):
    if not parses(ty, text):
        return None
    if ty in ("PeriodType", "u8"):
        return [int(text)]
    if ty == "bool":
        return [1 if text == "true" else 0]
    if ty == "ValueType":
        low = text.lower().lstrip("+-")
        if low in ("nan", "inf", "infinity"):
            return None
        return [core.f2bits(float(text))]
    return None


def replay(ctx, path):
    with open(path) as f:
        rec = json.load(f)
    core.build_harness("debug", ())
    for c in ([rec["case"]] if rec.get("case") else [b["case"] for b in rec.get("broken", []) if b.get("case")]):
        impl, err = core.run_harness([c["line"]])
        print("case:", c["line"][:400])
        print("what:", rec.get("what"))
        print("implementation:", (impl[0] or [])[:60], err or "")
    return 0
