"""C02 — Sliding-window numeric methods equal their from-scratch definition."""
import json
from .. import core
from ..suites import numeric

COQ_TARGETS = ["Properties/C02.vo", "Exec/DefRun.vo", "Exec/SelectRun.vo"]
PROP_MODULES = ["Properties.C02"]
HEADER = ("From Yata Require Import Base.Prelude Base.Num Base.NumF64 Core.Window Core.Candle Methods.Basic "
          "Spec.Hist Spec.MethodDefs Exec.MethodRun Exec.DefRun.\nFrom Coq Require Import Floats.\n"
          "Local Existing Instance PW8.\n")
NAMES = ["SMA", "WMA", "SWMA", "TRIMA", "HMA", "LinReg", "Integral", "Derivative", "Momentum", "RateOfChange",
         "Past", "StDev", "MeanAbsDev", "LinearVolatility", "CCI"]
PROVED = ["SMA", "WMA", "SWMA", "TRIMA", "HMA", "LinReg", "Conv", "VWMA", "Integral", "Momentum", "Derivative", "RateOfChange",
          "Past", "StDev", "MeanAbsDev", "CCI", "LinearVolatility", "ADI"]
RULE = ("per method: every boundary length plus random lengths, streams from every regime (walk, plateau, "
        "volatile-flat-volatile, monotone, spikes, alternating, scale jumps, dyadic ties, mixed zeros; scales 2^-60..1e12), "
        "rejected constructor parameters; each case is run on the implementation, on the bit-exact Gallina model and "
        "through the from-scratch definition (all three compared); distinct = distinct case lines")
ASSUMPTIONS = [
    "rounding link |NumF64 model - NumR model| <= A(t) is measured (max error/allowance recorded per method), not proved",
    "theorems in Coq for: " + ", ".join(PROVED) + "; the other methods of the property are covered by the bit-exact "
    "model correspondence and the definition oracle only (their NumR theorems are not yet in the development)",
]
TRUSTED_EXTRA = ["Coq standard library real-number axioms (sig_not_dec, sig_forall_dec, functional_extensionality_dep) "
                 "and Classical_Prop.classic behind R"]


def builds(ctx):
    return [("debug", ())] + ([("release", ())] if ctx.tier == "thorough" else [])


def run(ctx):
    cases = numeric.gen_scalar(ctx.rng, ctx.tier, NAMES)
    cases += numeric.gen_other(ctx.rng, ctx.tier, ["VWMA", "Conv", "ADI"])
    ctx.run_suite("windowed-methods", cases, HEADER, per_shard=12,
                  theorem="Properties/C02.v (windowed_correct for " + ", ".join(PROVED) + ")")
    # MedianAbsDev (mean absolute deviation from the moving median): the same cases as C04's, here for its formula
    from ..suites import select
    from . import c04
    mcases = [c for c in select.gen_select(ctx.rng.fork("medad"), ctx.tier) if c.entry == "MedianAbsDev"]
    ctx.run_suite("median-abs-dev", mcases, c04.HEADER, per_shard=8, theorem="Properties/C04.v (C04_median_abs_dev)")
    if ctx.tier == "thorough":
        ctx.run_suite("windowed-methods-release", cases, HEADER, profile="release", model=False)
    ctx.extra["methods_with_coq_theorem"] = PROVED
    ctx.extra["methods_correspondence_only"] = [n for n in NAMES + ["VWMA", "Conv", "ADI"] if n not in PROVED]


def replay(ctx, path):
    return numeric.replay(ctx, path, HEADER)
