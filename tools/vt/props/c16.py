"""C16 — Action is a consistent signed-strength algebra."""
import json
from .. import core
from ..suites import action

COQ_TARGETS = ["Properties/C16.vo", "Exec/ActionRun.vo"]
PROP_MODULES = ["Properties.C16"]
HEADER = "From Yata Require Import Base.Prelude Base.Num Base.NumF64 Core.Action Proofs.ActionProofs Exec.ActionRun.\nFrom Coq Require Import Floats.\n"
RULE = ("complete finite domain: all 513 actions through every unary operation, all 513x513 pairs through sub/eq/cmp, all 256 i8; "
        "f64: the 255 break points +-2 ulp of both signs, special values, random bit patterns and near-half-integer products; "
        "f32: neighbours of every break point, random patterns, and a sweep over every stride-th f32 bit pattern "
        "(stride 1 = all 2^32 in the thorough tier) checked against the break-point table proved in Coq")
ASSUMPTIONS = ["f32 -> f64 conversion is exact and monotone (IEEE)",
               "monotonicity of From<f64> between break points rests on monotonicity of IEEE rounding (argued, exercised by the sweep; not a Coq theorem)"]


def builds(ctx):
    return [("debug", ())] + ([("release", ())] if ctx.tier == "thorough" else [])


def run(ctx):
    res, errs = core.run_coq_cases(HEADER, ["bp_table"], ctx.work, tag="bptable")
    if errs or not res or res[0] is None or len(res[0]) != 255:
        ctx.broke("model-execution", "bp_table", "; ".join(errs) or "bad table")
        return
    bp_bits = res[0]
    cases = action.gen(ctx.rng, ctx.tier, bp_bits)
    ctx.run_suite("action", cases, HEADER, per_shard=40,
                  theorem="Properties/C16.v (C16_sub_spec, C16_eq_*, C16_from_ratio_roundtrip, C16_breakpoints, ...)")
    stride = 4099 if ctx.tier == "quick" else 1
    sweep = action.Simple("action f32sweep %d" % stride, "[]", "f32-sweep", action.oracle_sweep(stride, bp_bits), exact=False)
    ctx.run_suite("action-f32-sweep", [sweep], HEADER, profile=("release" if ctx.tier == "thorough" else "debug"),
                  model=False, theorem="C16_breakpoints + monotonicity")
    ctx.extra["exhaustive_domains"] = ["513 actions", "513x513 pairs", "256 i8"] + (["2^32 f32"] if stride == 1 else [])


def replay(ctx, path):
    with open(path) as f:
        rec = json.load(f)
    core.build_harness("debug", ())
    for c in ([rec["case"]] if rec.get("case") else [b["case"] for b in rec.get("broken", []) if b.get("case")]):
        impl, err = core.run_harness([c["line"]])
        print("case:", c["line"][:300])
        print("what:", rec.get("what"))
        print("implementation:", (impl[0] or [])[:60], err or "")
    return 0
