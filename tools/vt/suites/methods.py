"""Method suites: bit-exact model vs implementation for src/methods."""
from ..core import coq_float, f2bits
from .. import gens
from .action import Simple

# name -> (coq new, coq next, coq peek | None, min valid length, max valid length, harness has peek)
SCALAR = {
    "SMA": ("sma_new", "sma_next", "sma_peek", 1, 254),
    "WMA": ("wma_new", "wma_next", "wma_peek", 1, 254),
    "EMA": ("ema_new", "ema_next", "ema_peek", 1, 254),
    "DMA": ("dma_new", "dma_next", "dma_peek", 1, 254),
    "TMA": ("tma_new", "tma_next", "tma_peek", 1, 254),
    "DEMA": ("dema_new", "dema_next", "dema_peek", 1, 254),
    "TEMA": ("tema_new", "tema_next", "tema_peek", 1, 254),
    "RMA": ("rma_new", "rma_next", "rma_peek", 1, 255),
    "WSMA": ("wsma_new", "wsma_next", "wsma_peek", 1, 127),
    "SWMA": ("swma_new", "swma_next", "swma_peek", 1, 254),
    "TRIMA": ("trima_new", "trima_next", "trima_peek", 1, 254),
    "HMA": ("hma_new", "hma_next", "hma_peek", 2, 254),
    "LinReg": ("linreg_new", "linreg_next", "linreg_peek", 2, 254),
    "Vidya": ("vidya_new", "vidya_next", "vidya_peek", 1, 254),
    "Integral": ("integral_new", "integral_next", "integral_peek", 0, 254),
    "StDev": ("stdev_new", "stdev_next", "stdev_peek", 2, 254),
    "MeanAbsDev": ("mad_new", "mad_next", "mad_peek", 1, 254),
    "LinearVolatility": ("linvol_new", "linvol_next", "linvol_peek", 1, 254),
    "Derivative": ("derivative_new", "derivative_next", None, 1, 254),
    "Momentum": ("momentum_new", "momentum_next", None, 1, 254),
    "RateOfChange": ("roc_new", "roc_next", None, 1, 254),
    "CCI": ("cci_new", "cci_next", None, 1, 254),
    "Past": ("past_new", "past_next", None, 1, 254),
}


def flist(xs):
    return "[" + "; ".join(coq_float(x) for x in xs) + "]"


def scalar_case(name, n, x0, xs, kind, peek=False, extra=None):
    new, nxt, pk, lo, hi = SCALAR[name]
    use_peek = peek and pk is not None and name != "Past"
    line = "method %s %s%d %016x %d %s" % (name, "peek " if use_peek else "", n, f2bits(x0), len(xs), gens.hexs(xs))
    if use_peek:
        term = "run_scalar_peek %s %s %s (%d) %s %s" % (new, nxt, pk, n, coq_float(x0), flist(xs))
    else:
        term = "run_scalar %s %s (%d) %s %s" % (new, nxt, n, coq_float(x0), flist(xs))
    ex = {"entry": name, "length": n, "steps": len(xs)}
    ex.update(extra or {})
    return Simple(line, term, kind, exact=False, extra=ex)


def gen_scalar(rng, tier, names, steps=None, peek=False):
    cases = []
    nrand = 4 if tier == "quick" else 30
    steps = steps or (100 if tier == "quick" else 400)
    for name in names:
        new, nxt, pk, lo, hi = SCALAR[name]
        r = rng.fork("m-" + name)
        lens = [l for l in gens.BOUNDARY_LENGTHS if lo <= l <= hi]
        if tier == "quick":
            lens = [l for l in lens if l in (1, 2, 3, 5, 8, 16, 17, 64, 127, 254)]
        lens += [r.range(lo, hi) for _ in range(nrand)]
        if lo == 0:
            lens.append(0)
        for n in lens:
            x0, xs, regime = gens.stream(r, min(steps, max(30, 3 * n + 10)) if tier == "quick" else steps)
            cases.append(scalar_case(name, n, x0, xs, "stream", peek, {"regime": regime}))
        # rejected / boundary parameters
        for n in sorted(set([0, 1, lo - 1, hi + 1, 255]) - set(range(lo, hi + 1))):
            if 0 <= n <= 255:
                cases.append(scalar_case(name, n, 1.5, [1.0, 2.0], "ctor-boundary", peek))
    return cases
