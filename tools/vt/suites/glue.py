"""API glue suite (C09, C13 at method level): harness `glue` lines; each transcript carries the plain
next-loop outputs and the outputs obtained through one API function; the oracle compares them."""
from ..core import f2bits, bits2f, T_ERR, T_PANIC, T_NONE, T_MISMATCH
from .. import gens

METHODS = {  # name: (lo, hi, peekable)
    "SMA": (1, 254, True), "WMA": (1, 254, True), "EMA": (1, 254, True), "DMA": (1, 254, True), "TMA": (1, 254, True),
    "DEMA": (1, 254, True), "TEMA": (1, 254, True), "RMA": (1, 254, True), "WSMA": (1, 127, True), "SWMA": (1, 254, True),
    "TRIMA": (1, 254, True), "HMA": (2, 254, True), "LinReg": (2, 254, True), "SMM": (1, 254, True), "Vidya": (1, 254, True),
    "Integral": (0, 254, True), "StDev": (2, 254, True), "MeanAbsDev": (1, 254, True), "MedianAbsDev": (2, 254, True),
    "LinearVolatility": (1, 254, True), "Highest": (1, 254, True), "Lowest": (1, 254, True),
    "HighestLowestDelta": (1, 254, True), "Past": (1, 254, True), "Derivative": (1, 254, False),
    "Momentum": (1, 254, False), "RateOfChange": (1, 254, False), "CCI": (1, 254, False),
}
VARIANTS = ["over", "call", "apply", "seqapply", "new_over", "new_apply", "into_fn", "new_fn", "chunk", "history",
            "last_value", "clone", "twice", "peek", "serde"]


class GCase:
    def __init__(self, name, variant, n, x0, xs, extra="", kind="glue"):
        self.name, self.variant, self.n, self.x0, self.xs, self.extra, self.kind = name, variant, n, x0, xs, extra, kind
        self.exact = False

    def line(self):
        return "glue %s %s %d %016x %d %s%s" % (self.name, self.variant, self.n, f2bits(self.x0), len(self.xs),
                                                gens.hexs(self.xs), (" " + self.extra) if self.extra else "")

    def term(self):
        return "[]"

    def meta(self):
        return {"suite": "glue", "kind": self.kind, "entry": self.name, "variant": self.variant, "length": self.n,
                "steps": len(self.xs), "extra": self.extra, "line": self.line()[:400000]}

    def oracle(self, io):
        if not io or io[0] != 0:
            return None
        k = len(self.xs)
        base, rest = io[1:1 + k], io[1 + k:]
        if T_PANIC in base:
            return ["plain next loop panicked"]
        if rest and rest[-1] == T_PANIC:
            return ["%s panicked where the plain next loop does not" % self.variant]
        v = self.variant

        def diff(a, b, what):
            if len(a) != len(b):
                return ["%s produced %d outputs for %d inputs" % (what, len(a), len(b))]
            for i, (x, y) in enumerate(zip(a, b)):
                if x != y:
                    return ["%s: output %d is %r, the element-by-element next loop gives %r" % (
                        what, i, bits2f(x) if x >= 0 else x, bits2f(y) if y >= 0 else y)]
            return []
        if v in ("over", "call", "apply", "seqapply", "into_fn", "new_fn", "chunk", "clone", "twice"):
            if v == "twice" and T_MISMATCH in rest:
                return ["two identically built instances fed identical input diverge at step %d" % rest.index(T_MISMATCH)]
            return diff(rest, base, v)
        if v in ("new_over", "new_apply"):
            i = rest.index(-77)
            ref, got = rest[:i], rest[i + 1:-1]
            return diff(got, ref, v) + ([] if rest[-1] == 0 else ["%s on an empty sequence returned %d elements" % (v, rest[-1])])
        if v == "history":
            i = rest.index(-77)
            outs, gets = rest[:i], rest[i + 1:]
            r = diff(outs, base, "WithHistory::next")
            exp = list(reversed(base)) + [T_NONE]
            if gets != exp:
                r.append("WithHistory::get does not read back the outputs newest-first")
            return r
        if v == "last_value":
            first, p0, trip = rest[0], rest[1], rest[2:]
            r = []
            if first != p0:
                r.append("WithLastValue::peek after new is %r, the first output is %r" % (bits2f(p0), bits2f(first)))
            for j in range(0, len(trip), 3):
                a, b, p = trip[j:j + 3]
                if a != b or b != p:
                    r.append("WithLastValue step %d: plain %r, wrapper %r, peek %r" % (j // 3, bits2f(a), bits2f(b), bits2f(p)))
                    break
            return r
        if v == "peek":
            if T_MISMATCH in rest:
                return ["peek() after step %d is not the value next() just returned" % rest.index(T_MISMATCH)]
            return diff(rest, base, "peek")
        if v == "serde_each":
            flags, outs = rest[0::2], rest[1::2]
            r = diff(outs, base, "serde_each")
            for i, f in enumerate(flags):
                if f != 1:
                    r.append("snapshot before step %d: %s" % (i, "the serialized instance is rejected by its own Deserialize" if f == T_ERR
                             else "the restored instance does not continue bit-identically (or serializes differently)"))
                    break
            return r
        if v == "serde":
            if rest and rest[-1] == T_ERR and -77 not in rest:
                return ["the serialized instance could not be deserialized"]
            i = rest.index(-77)
            r = diff(rest[:i], base, "restored instance")
            if rest[i + 1] != 1:
                r.append("the same history does not serialize to the same snapshot")
            return r
        return None


def gen_serde_each(rng, tier):
    """every snapshot point of a stream: tie-alphabet de Bruijn sequence (all window contents) + regime streams"""
    from .select import de_bruijn, ALPHA
    cases = []
    db = [ALPHA[i] for i in de_bruijn(len(ALPHA), 4 if tier == "quick" else 5)]
    for name, (lo, hi, peekable) in METHODS.items():
        r = rng.fork("se-" + name)
        for n in sorted(set(max(lo, k) for k in (1, 2, 3, 4))):
            if n <= hi:
                cases.append(GCase(name, "serde_each", n, db[0], db, str(2 * n + 2), kind="serde-each-debruijn"))
        for k in range(2 if tier == "quick" else 8):
            n = max(lo, min(hi, r.choice([1, 2, 3, 5, 9, 14, 30])))
            x0, xs, regime = gens.stream(r, 80 if tier == "quick" else 300)
            xs = [x if x == x and abs(x) != float("inf") else 1.0 for x in xs]
            cases.append(GCase(name, "serde_each", n, x0 if x0 == x0 and abs(x0) != float("inf") else 1.0, xs, str(n + 3), kind="serde-each"))
    return cases


def gen(rng, tier, variants=None, names=None):
    cases = []
    variants = variants or VARIANTS
    steps = 60 if tier == "quick" else 250
    for name, (lo, hi, peekable) in METHODS.items():
        if names and name not in names:
            continue
        r = rng.fork("g-" + name)
        for v in variants:
            if v == "peek" and not peekable:
                continue
            reps = 2 if tier == "quick" else 8
            for k in range(reps):
                n = r.choice([lo, max(lo, 1), 2, 3, 5, 14]) if k % 2 == 0 else r.range(max(lo, 1), min(hi, 60))
                n = max(lo, min(hi, n))
                x0, xs, regime = gens.stream(r, steps)
                if name in ("Highest", "Lowest", "HighestLowestDelta", "SMM", "MedianAbsDev"):
                    xs = [x if x == x and abs(x) != float("inf") else 1.0 for x in xs]
                extra = ""
                if v == "chunk":
                    sizes = [r.choice([0, 0, 1, 2, 3, 7, 20]) for _ in range(r.range(1, 8))]
                    extra = "%d %s" % (len(sizes), " ".join(map(str, sizes)))
                elif v in ("clone", "serde"):
                    extra = str(r.choice([0, 1, n - 1 if n > 0 else 0, n, n + 1, r.range(0, steps)]))
                cases.append(GCase(name, v, n, x0, xs, extra))
            if v in ("peek", "last_value", "clone", "serde"):
                # directed: short windows on tie-heavy / flat regimes (state that only changes on some paths)
                for regime in ("plateau", "vol-flat-vol", "mixed-zeros", "dyadic"):
                    n = max(lo, min(hi, r.choice([1, 2, 3])))
                    x0, xs, regime = gens.stream(r, steps, regime=regime)
                    if regime == "dyadic":   # exact arithmetic with long flats
                        xs = [xs[(i // 7) * 7] for i in range(len(xs))]
                    if v in ("clone", "serde"):
                        for at in sorted(set([n, n + 1, 2 * n + 1] + [r.range(0, steps - 5) for _ in range(4)])):
                            cases.append(GCase(name, v, n, x0, xs, str(at), kind="glue-directed"))
                    else:
                        cases.append(GCase(name, v, n, x0, xs, "", kind="glue-directed"))
    return cases
