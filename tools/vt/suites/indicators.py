"""Generic indicator suite over all indicators of the crate (driven through `set`, like a user).
Cases are harness lines `indicator <Name> <variant> ...`; this module builds them from the
generated configuration tables (tools/xlate.py), parses the transcripts and offers the oracles
used by C05..C13."""
import json, math, os, subprocess, sys
from ..core import VERIF, f2bits, bits2f, T_ERR, T_PANIC
from .. import gens

TABLES = os.path.join(VERIF, ".work", "generated_tables.json")

MA_KINDS_BY_CODE = ["sma", "wma", "hma", "rma", "ema", "dma", "dema", "tma", "tema", "wsma", "smm", "swma", "trima", "linreg", "vidya"]
MA_KINDS = ["sma", "wma", "hma", "rma", "ema", "dma", "tma", "dema", "tema", "wsma", "smm", "swma", "trima", "linreg", "vidya"]
SOURCES = ["close", "high", "low", "tp", "hl2", "open", "volume", "volumed_price"]


def run_xlate():
    p = subprocess.run([sys.executable, os.path.join(VERIF, "tools", "xlate.py")], stdout=subprocess.PIPE,
                       stderr=subprocess.STDOUT, text=True)
    return p.returncode, p.stdout


def tables():
    with open(TABLES) as f:
        return json.load(f)


def harness_name(t):
    return t["config"]


def hc(c):
    return " ".join("%016x" % f2bits(x) for x in c)


def enc_val(v):
    """values travel as single tokens: spaces as \\s, tabs as \\t, newlines as \\n, empty as \\e"""
    v = str(v)
    if v == "":
        return "\\e"
    return v.replace(" ", "\\s").replace("\t", "\\t").replace("\n", "\\n")


class ICase:
    def __init__(self, name, variant, sets, c0, cs, extra="", kind="run", meta=None):
        self.name, self.variant, self.sets, self.c0, self.cs, self.extra, self.kind = name, variant, sets, c0, cs, extra, kind
        self.m = meta or {}
        self.exact = False
        self.nontrivial = True

    def line(self):
        s = " ".join("%s %s" % (enc_val(k), enc_val(v)) for k, v in self.sets)
        return "indicator %s %s %d %s %s %d %s%s" % (self.name, self.variant, len(self.sets), s, hc(self.c0), len(self.cs),
                                                      " ".join(hc(c) for c in self.cs), (" " + self.extra) if self.extra else "")

    def term(self):
        return "[]"

    def meta(self):
        m = {"suite": "indicator", "kind": self.kind, "entry": self.name, "variant": self.variant,
             "sets": ["%s=%s" % kv for kv in self.sets], "line": self.line()[:400000]}
        m.update(self.m)
        return m


class Parsed:
    pass


def parse(out, nsets):
    """transcript -> Parsed(set_results, fields, valid, size, name_ok, init, steps, tail, panic)"""
    p = Parsed()
    p.raw = out
    p.panic_in_set = False
    i = 0
    p.set_results = []
    for _ in range(nsets):
        if i >= len(out):
            break
        if out[i] == T_PANIC:
            p.panic_in_set = True
            p.fields, p.valid, p.size, p.name_ok, p.init, p.steps, p.tail = [], None, None, None, None, [], []
            return p
        p.set_results.append(out[i])
        i += 1
    nf = out[i]
    i += 1
    p.fields = []
    for _ in range(nf):
        ln = out[i]
        p.fields.append(out[i + 1:i + 1 + ln])
        i += 1 + ln
    p.valid, s0, s1, p.name_hash, p.name_ok = out[i:i + 5]
    p.size = (s0, s1)
    i += 5
    p.init = out[i] if i < len(out) else None
    i += 1
    p.steps = []
    p.step_panic = None
    p.head = []
    rest = out[i:]
    p.rest = rest
    return p


def parse_steps(rest, skip=0):
    """rest: [skip header ints] then repeated (nv, values.., ns, signals.., vl, sl); returns (steps, panic_at, tail)"""
    i = skip
    steps = []
    while i < len(rest):
        if rest[i] == T_PANIC:
            return steps, len(steps), rest[i + 1:]
        nv = rest[i]
        if nv < 0 or nv > 8 or i + 1 + nv >= len(rest):
            break
        vals = rest[i + 1:i + 1 + nv]
        j = i + 1 + nv
        ns = rest[j]
        if ns < 0 or ns > 8 or j + 1 + ns + 2 > len(rest):
            break
        sigs = rest[j + 1:j + 1 + ns]
        vl, sl = rest[j + 1 + ns], rest[j + 2 + ns]
        steps.append((vals, sigs, vl, sl))
        i = j + 3 + ns
    return steps, None, rest[i:]


# ------------------------------------------------------------------ configurations
def value_for(ty, rng, valid=True, default=None):
    """a text value for a field of the given Rust type"""
    if ty in ("PeriodType", "u8"):
        if valid:
            return str(rng.choice([2, 3, 4, 5, 7, 9, 10, 14, 20, 26, 30]))
        return rng.choice(["0", "1", "254", "255", "256", "-1", "x", "", "3.5", " 5", "+5", "1000000000000"])
    if ty == "ValueType":
        if valid:
            return rng.choice(["0.1", "0.2", "0.25", "0.3", "0.5", "0.02", "1.0", "2.0", "0.8"])
        return rng.choice(["NaN", "inf", "-inf", "-1", "0", "1e308", "abc", "", "0,5", "1e-320"])
    if ty == "Source":
        if valid:
            return rng.choice(["close", "high", "low", "tp", "hl2", "open"])
        return rng.choice(["closee", "", "CLOSE", " tp ", "volume", "volumed_price", "ohlc4"])
    if ty == "M":
        if valid:
            return "%s-%d" % (rng.choice(MA_KINDS), rng.choice([2, 3, 4, 5, 7, 9, 12, 14, 20, 26]))
        return rng.choice(["sma", "sma-", "-5", "sma-0", "sma-1", "sma-255", "sma-256", "SMA-5", "foo-5", "wsma-128", "wsma-0",
                           "vidya-255", "sma-5-6", "ema--5", "é-3", "hma-1", "linreg-1"])
    if ty == "bool":
        return rng.choice(["true", "false"]) if valid else rng.choice(["1", "yes", "", "True"])
    raise ValueError("unknown field type " + ty)


def malformed_values(ty):
    """every text tried for a field of the given type in the exhaustive malformed sweep (some are well-formed on purpose)"""
    if ty in ("PeriodType", "u8"):
        return ["0", "1", "254", "255", "256", "257", "300", "65535", "65536", "4294967296", "18446744073709551616", "-1", "-0", "x", "",
                "3.5", " 5", "5 ", "\t5", "5\n", "+5", "+", "1000000000000", "0x5", "5u8", "٥"]
    if ty == "ValueType":
        return ["NaN", "inf", "-inf", "-1", "0", "1e308", "abc", "", "0,5", "1e-320", " 0.5", "0.5 ", "\t0.5", "0.5\n", " 2.5", "2.5 ",
                "+0.5", ".5", "5.", "1e2", "1_0", "0x1p-1", "½"]
    if ty == "Source":
        return ["closee", "", "CLOSE", " tp ", "volume", "volumed_price", "ohlc4", "c lose", "hl 2", "t p"]
    if ty == "M":
        return ["sma", "sma-", "-5", "sma-0", "sma-1", "sma-255", "sma-256", "SMA-5", "foo-5", "wsma-128", "wsma-0", "vidya-255",
                "sma-5-6", "ema--5", "é-3", "hma-1", "linreg-1", " sma-5", "sma-5 ", "sma- 5", "sma -5"]
    if ty == "bool":
        return ["1", "yes", "", "True", " true", "true ", "TRUE", "0"]
    return []


def random_config(t, rng, nchanges=2):
    """a list of (key, text) sets that are individually well-formed (the result may or may not validate)"""
    pub = [f for f in t["fields"] if f["public"]]
    sets = []
    for f in rng_sample(rng, pub, min(nchanges, len(pub))):
        sets.append((f["name"], value_for(f["ty"], rng, True)))
    return sets


def rng_sample(rng, seq, k):
    seq = list(seq)
    out = []
    for _ in range(k):
        if not seq:
            break
        out.append(seq.pop(rng.below(len(seq))))
    return out


def candles_for(rng, n, regime=None):
    cs, regime = gens.candles(rng, n, regime)
    return cs, regime


# parameters whose non-default values switch a different code path on (not just a different length)
DIRECTED = {"ChaikinOscillator": [[("window", "1")], [("window", "5")]],
            "PriceChannelStrategy": [[("sigma", "0.5")]],
            "AverageDirectionalIndex": [[("period1", "2")]],
            # zone thresholds that fall between two window positions (period x zone has a fractional part >= 0.5)
            "Aroon": [[("period", "9"), ("signal_zone", "0.3")], [("period", "20"), ("signal_zone", "0.33")]],
            # parameters whose defaults coincide (l2 = m = 26): a slip that reads the other one shows only when they differ
            "IchimokuCloud": [[("m", "5")], [("l1", "4"), ("l2", "7"), ("l3", "11"), ("m", "3")]],
            "Envelopes": [[("source2", "open"), ("k", "0.004")], [("source", "hl2"), ("source2", "high"), ("k", "0.003")]],
            "ChandeKrollStop": [[("x", "0.5")], [("x", "2.5"), ("q", "3")]]}


MA_KINDS = ["sma", "wma", "hma", "rma", "ema", "dma", "dema", "tma", "tema", "wsma", "smm", "swma", "trima", "linreg", "vidya"]


def ma_kind_configs(t, period=9):
    """one configuration per averaging kind for the first MA-typed parameter of the indicator (all 15 kinds of the MA
    constructor: a dispatch slip or a serde slip on one variant shows only with that kind)"""
    fs = [f["name"] for f in t["fields"] if f["public"] and f["ty"] == "M"]
    if not fs:
        return []
    return [[(fs[0], "%s-%d" % (k, period))] for k in MA_KINDS]


def source_field_configs(t):
    """one configuration per Source-typed parameter with that parameter moved away from its default (and from the other
    Source parameters, which keep theirs): a slip that reads the wrong source field shows only then"""
    out = []
    for f in t["fields"]:
        if f["public"] and f["ty"] == "Source":
            dflt = str(t.get("defaults", {}).get(f["name"], "")).lower()
            alt = "open" if "open" not in dflt else "high"
            out.append([(f["name"], alt)])
    return out


def configs(t, rng, n_random):
    """default + directed + one per Source parameter + n_random random configurations (as set lists)"""
    out = [[]] + [list(x) for x in DIRECTED.get(t["config"], [])] + source_field_configs(t)
    for _ in range(n_random):
        out.append(random_config(t, rng, 1 + rng.below(3)))
    return out


# ------------------------------------------------------------------ shared oracles
def finite_bits(b):
    x = bits2f(b)
    return x == x and abs(x) != math.inf


def steps_of(io, nsets, skip=0):
    p = parse(io, nsets)
    if p.panic_in_set or p.init != 0:
        return p, [], None
    steps, panic_at, tail = parse_steps(p.rest, skip)
    p.tail = tail
    return p, steps, panic_at


def same_steps(a, b, zero_loose=True):
    """first index where two step lists differ (values bitwise modulo sign of zero and NaN identity), else None"""
    for i in range(max(len(a), len(b))):
        if i >= len(a) or i >= len(b):
            return i
        va, sa = a[i][0], a[i][1]
        vb, sb = b[i][0], b[i][1]
        if len(va) != len(vb) or sa != sb:
            return i
        for x, y in zip(va, vb):
            if x != y and not (zero_loose and {x, y} == {0, 0x8000000000000000}):
                return i
    return None
