"""Comparison-only methods (C04, C14): Highest/Lowest/Delta/Index, SMM, MedianAbsDev, Cross*, Reversal*.
impl vs bit-exact Gallina model, and impl vs an independent from-scratch oracle (exact, modulo sign of zero)."""
from fractions import Fraction
import math
from ..core import coq_float, f2bits, bits2f, T_ERR, T_PANIC
from .. import gens
from .numeric import flist, finite, U, K

ALPHA = [-2.0, -1.0, -0.0, 0.0, 1.0, 2.0]


def de_bruijn(k, n):
    a = [0] * k * n
    seq = []

    def db(t, p):
        if t > n:
            if n % p == 0:
                seq.extend(a[1:p + 1])
        else:
            a[t] = a[t - p]
            db(t + 1, p)
            for j in range(a[t - p] + 1, k):
                a[t] = j
                db(t + 1, t)
    db(1, 1)
    return seq


def enc_act(e):
    return 0 if e == 1000 else (1 if e < 1000 and e > 0 else (-1 if e > 2000 else 0))


class SCase:
    def __init__(self, entry, line, term, oracle_fn, kind, extra=None):
        self.entry, self._line, self._term, self.oracle_fn, self.kind = entry, line, term, oracle_fn, kind
        self.extra = extra or {}
        self.exact = False
        self.zero_loose = True

    def line(self):
        return self._line

    def term(self):
        return self._term

    def meta(self):
        m = {"suite": "method", "kind": self.kind, "entry": self.entry, "line": self._line[:400000]}
        m.update(self.extra)
        return m

    def oracle(self, io):
        if io and io[0] == T_PANIC:
            return ["the constructor panicked"]
        if not io or io[0] != 0 or self.oracle_fn is None:
            return None
        outs = io[1:]
        if outs and outs[-1] == T_PANIC:
            return ["next panicked at output slot %d" % (len(outs) - 1)]
        return self.oracle_fn(outs)


def window_at(x0, xs, t, n):
    """last n inputs at step t (newest first), construction value before the stream"""
    return [xs[t - i] if t - i >= 0 else x0 for i in range(n)]


def num_eq(a, b):
    return a == b  # -0.0 == 0.0


def sel_oracle(name, n, x0, xs):
    def fn(outs):
        res = []
        for t in range(min(len(outs), len(xs))):
            w = window_at(x0, xs, t, n)
            if name == "Highest":
                exp, got = max(w), bits2f(outs[t])
            elif name == "Lowest":
                exp, got = min(w), bits2f(outs[t])
            elif name == "HighestLowestDelta":
                exp, got = max(w) - min(w), bits2f(outs[t])
            elif name == "HighestIndex":
                m = max(w)
                exp, got = next(i for i, v in enumerate(w) if v == m), outs[t]
            elif name == "LowestIndex":
                m = min(w)
                exp, got = next(i for i, v in enumerate(w) if v == m), outs[t]
            elif name == "SMM":
                s = sorted(w)
                a, b = s[n // 2], s[n // 2 - (1 if n % 2 == 0 else 0)]
                # the exact median (mean of the two middle elements), correctly rounded: no overflow of an intermediate sum
                exp = float((Fraction(a) + Fraction(b)) / 2) if (finite(a) and finite(b)) else (a + b) * 0.5
                got = bits2f(outs[t])
            else:
                raise ValueError(name)
            if not num_eq(exp, got):
                res.append("step %d: %s(%d) returned %r, the last %d inputs %s give %r" % (t, name, n, got, n, w[:8], exp))
                if len(res) >= 2:
                    break
        return res
    return fn


def medad_oracle(n, x0, xs):
    def fn(outs):
        res = []
        M = abs(x0)
        for t in range(min(len(outs), len(xs))):
            M = max(M, abs(xs[t]))
            w = window_at(x0, xs, t, n)
            s = sorted(w)
            med = (s[n // 2] + s[n // 2 - (1 if n % 2 == 0 else 0)]) * 0.5
            exp = math.fsum(abs(v - med) for v in w) / n
            got = bits2f(outs[t])
            A = K * U * (t + n + 8) * M * 4
            if not (abs(got - exp) <= A):
                res.append("step %d: MedianAbsDev(%d) returned %r, definition gives %r (allowance %.3g)" % (t, n, got, exp, A))
                break
        return res
    return fn


def scalar_sel(name, n, x0, xs, kind, extra=None, hi=254):
    line = "method %s %d %016x %d %s" % (name, n, f2bits(x0), len(xs), gens.hexs(xs))
    a = "(%d) %s" % (n, coq_float(x0))
    terms = {
        "Highest": "run_gen_o (hl_new %s) highest_next encF None %s",
        "Lowest": "run_gen_o (hl_new %s) lowest_next encF None %s",
        "HighestLowestDelta": "run_gen (hld_new %s) hld_next encF None %s",
        "HighestIndex": "run_gen_o (hli_new %s) highest_index_next encZ None %s",
        "LowestIndex": "run_gen_o (hli_new %s) lowest_index_next encZ None %s",
        "SMM": "run_gen_o (smm_new %s) smm_next encF None %s",
        "MedianAbsDev": "run_gen_o (medad_new %s) medad_next encF None %s",
    }
    term = terms[name] % (a, flist(xs))
    lo = 2 if name == "MedianAbsDev" else 1
    ofn = None
    if lo <= n <= hi and all(finite(v) for v in xs) and finite(x0):
        ofn = medad_oracle(n, x0, xs) if name == "MedianAbsDev" else sel_oracle(name, n, x0, xs)
    ex = {"length": n, "steps": len(xs)}
    ex.update(extra or {})
    return SCase(name, line, term, ofn, kind, ex)


SEL = ["Highest", "Lowest", "HighestLowestDelta", "HighestIndex", "LowestIndex", "SMM", "MedianAbsDev"]


def gen_select(rng, tier):
    cases = []
    # exhaustive order/bit-equality patterns: a de Bruijn sequence over the tie alphabet contains every
    # window content together with every entering element
    order = 5 if tier == "quick" else 6
    db = [ALPHA[i] for i in de_bruijn(len(ALPHA), order)]
    db = db + db[:order]
    for name in SEL:
        for n in range(1, order):
            if name == "MedianAbsDev" and n < 2:
                continue
            for x0 in (0.0, -0.0, 2.0):
                cases.append(scalar_sel(name, n, x0, db, "de-bruijn-%d" % order, {"alphabet": "tie"}))
    nr = 3 if tier == "quick" else 20
    steps = 150 if tier == "quick" else 600
    for name in SEL:
        r = rng.fork("s-" + name)
        lo = 2 if name == "MedianAbsDev" else 1
        for n in [lo, 2, 3, 4, 5, 8, 17, 64, 254] + [r.range(lo, 254) for _ in range(nr)] + [r.range(lo, 12) for _ in range(nr)]:
            regime = r.choice(["mixed-zeros", "plateau", "dyadic", "monotone", "walk", "spikes", "alternating"])
            x0, xs, regime = gens.stream(r, min(steps, 3 * n + 60) if tier == "quick" else steps, regime=regime)
            cases.append(scalar_sel(name, n, x0, xs, "stream", {"regime": regime}))
        if name != "MedianAbsDev":
            # magnitudes at both ends of the range: sums of two elements overflow, halves of subnormals are not representable
            ext = [1.7e308, -1.7e308, 9e307, -9e307, 1e308, 8.98e307, 5e-324, -5e-324, 1e-320, 0.0, -0.0, 1.0, -1.0]
            for n in (1, 2, 3, 4, 5, 8):
                xs = [r.choice(ext) for _ in range(60)]
                cases.append(scalar_sel(name, n, r.choice(ext), xs, "extreme-magnitudes", {"regime": "extreme"}))
        for n in (0, 255) + ((1,) if lo == 2 else ()):
            cases.append(scalar_sel(name, n, 1.0, [2.0], "ctor-boundary"))
        cases.append(scalar_sel(name, 3, math.inf, [2.0], "ctor-nonfinite"))
        cases.append(scalar_sel(name, 3, 1.0, [2.0, math.nan, 1.0], "next-nonfinite"))
    return cases


# ------------------------------------------------------------------ C14
def cross_oracle(name, p0, ps, default=False):
    def fn(outs):
        res = []
        last = 0.0 if default else p0[0] - p0[1]
        for t, (a, b) in enumerate(ps[:len(outs)]):
            cur = a - b
            up = 1 if (last < 0 and cur >= 0) else 0
            dn = 1 if (last > 0 and cur <= 0) else 0
            exp = {"CrossAbove": up, "CrossUnder": dn}.get(name, up - dn)
            got = enc_act(outs[t])
            if outs[t] not in (1000, 255, 2255) or got != exp:
                res.append("step %d: %s returned %d, deltas %r -> %r require %d" % (t, name, outs[t], last, cur, exp))
                if len(res) >= 2:
                    break
            last = cur
        return res
    return fn


def cross_case(name, p0, ps, kind, extra=None):
    pl = "[" + "; ".join("(%s, %s)" % (coq_float(a), coq_float(b)) for a, b in ps) + "]"
    body = "%d %s" % (len(ps), " ".join("%016x %016x" % (f2bits(a), f2bits(b)) for a, b in ps))
    p0s = "(%s, %s)" % (coq_float(p0[0]), coq_float(p0[1]))
    if name == "CrossDefault":
        line = "method CrossDefault %s" % body
        term = "run_gen (Ok (f0, f0)) cross_next encA None %s" % pl
    else:
        line = "method %s %016x %016x %s" % (name, f2bits(p0[0]), f2bits(p0[1]), body)
        if name == "Cross":
            term = "run_gen (Ok (cross_new %s, cross_new %s)) cross_next encA None %s" % (p0s, p0s, pl)
        else:
            nx = "cross_above_next" if name == "CrossAbove" else "cross_under_next"
            term = "run_gen (Ok (cross_new %s)) %s encA None %s" % (p0s, nx, pl)
    ok = all(finite(a) and finite(b) for a, b in ps + [p0])
    return SCase(name, line, term, cross_oracle(name, p0, ps, name == "CrossDefault") if ok else None, kind, extra)


def rev_oracle(name, left, right, x0, xs):
    ln = left + right + 1

    def fires(t, upper):
        if t < right:
            return False
        lo = max(0, t + 1 - ln)
        p = t - right
        seq = [(xs[i] if i > 0 or True else x0) for i in range(lo, t + 1)]
        # newest maximal (>=) / minimal (<=) element
        best = lo
        for i in range(lo, t + 1):
            if (xs[i] >= xs[best]) if upper else (xs[i] <= xs[best]):
                best = i
        return best == p

    def fn(outs):
        res = []
        for t in range(min(len(outs), len(xs))):
            up = 1 if fires(t, True) else 0
            lw = 1 if fires(t, False) else 0
            exp = {"UpperReversalSignal": up, "LowerReversalSignal": lw}.get(name, lw - up)
            got = enc_act(outs[t])
            if outs[t] not in (1000, 255, 2255) or got != exp:
                res.append("step %d: %s(%d,%d) returned %d, definition requires %d" % (t, name, left, right, outs[t], exp))
                if len(res) >= 2:
                    break
        return res
    return fn


def rev_case(name, left, right, x0, xs, kind, extra=None, hi=254):
    line = "method %s %d %d %016x %d %s" % (name, left, right, f2bits(x0), len(xs), gens.hexs(xs))
    a = "(%d) (%d) %s" % (left, right, coq_float(x0))
    if name == "ReversalSignal":
        term = "run_gen (reversal_new %s) reversal_next encA None %s" % (a, flist(xs))
    else:
        nx = "upper_rev_next" if name.startswith("Upper") else "lower_rev_next"
        term = "run_gen (rev_new %s) %s encA None %s" % (a, nx, flist(xs))
    valid = left >= 1 and right >= 1 and left + right < hi
    ofn = None
    # the definition is stated under the API convention "the first input is the construction value"
    if valid and xs and f2bits(xs[0]) == f2bits(x0) and all(finite(v) for v in xs):
        ofn = rev_oracle(name, left, right, x0, xs)
    ex = {"left": left, "right": right, "steps": len(xs)}
    ex.update(extra or {})
    return SCase(name, line, term, ofn, kind, ex)


def gen_detectors(rng, tier):
    cases = []
    r = rng.fork("cross")
    nr = 10 if tier == "quick" else 80
    steps = 200 if tier == "quick" else 1000
    for name in ("Cross", "CrossAbove", "CrossUnder", "CrossDefault"):
        for i in range(nr):
            fam = r.below(4)
            if fam == 0:      # small alphabet: exact touches and repeated zeros
                a = [r.choice([-1.0, 0.0, -0.0, 1.0, 0.5]) for _ in range(steps)]
                b = [r.choice([-1.0, 0.0, -0.0, 1.0, 0.5]) for _ in range(steps)]
            elif fam == 1:    # series against a constant base with exact touches
                _, a, _ = gens.stream(r, steps, regime=r.choice(["plateau", "dyadic", "walk"]))
                b = [a[r.below(len(a))]] * steps
            elif fam == 2:    # two walks that stick together for a while
                _, a, _ = gens.stream(r, steps, regime="walk")
                b = [v if r.chance(0.3) else v + (r.unit() - 0.5) * abs(v) * 0.01 for v in a]
            else:
                _, a, _ = gens.stream(r, steps)
                _, b, _ = gens.stream(r, steps)
            ps = list(zip(a, b))
            p0 = ps[0] if r.chance(0.7) else (r.choice([0.0, 1.0, -1.0]), r.choice([0.0, 1.0, -1.0]))
            cases.append(cross_case(name, p0, ps, "pairs", {"family": fam}))
    r = rng.fork("rev")
    order = 5 if tier == "quick" else 6
    db = [ALPHA[i] for i in de_bruijn(len(ALPHA), order)]
    for name in ("UpperReversalSignal", "LowerReversalSignal", "ReversalSignal"):
        for (l, rr) in [(1, 1), (1, 2), (2, 1), (2, 2), (1, 3), (3, 1)]:
            if l + rr + 1 <= order:
                cases.append(rev_case(name, l, rr, db[0], db, "de-bruijn-%d" % order))
        for i in range(nr):
            l, rr = (r.range(1, 5), r.range(1, 5)) if r.chance(0.7) else (r.range(1, 126), r.range(1, 126))
            regime = r.choice(["mixed-zeros", "plateau", "dyadic", "walk", "monotone", "alternating"])
            _, xs, regime = gens.stream(r, 700 if tier == "quick" else 3000, regime=regime)
            x0 = xs[0] if r.chance(0.8) else xs[0] + 1.0
            cases.append(rev_case(name, l, rr, x0, xs, "stream", {"regime": regime}))
        # far beyond PeriodType::MAX (and, in the thorough tier, beyond u16)
        _, xs, _ = gens.stream(r, 2000 if tier == "quick" else 70000, regime="plateau")
        cases.append(rev_case(name, 2, 2, xs[0], xs, "long-stream"))
        for (l, rr) in [(0, 1), (1, 0), (127, 127), (126, 127), (200, 100), (255, 1), (126, 126)]:
            cases.append(rev_case(name, l, rr, 1.0, [1.0, 2.0, 1.0], "ctor-boundary"))
    return cases
