"""Text-parsing suite (C10, C18): MA::from_str and Source::from_str on grammar-based and adversarial
texts, implementation against the Gallina model of Core/Strings.v."""
from ..core import T_ERR, T_PANIC
from .action import Simple
from .indicators import MA_KINDS

SRC_NAMES = ["close", "high", "low", "volume", "tp", "hlc3", "hl2", "open", "volumed_price"]
WHITE = [" ", "\t", "\n", " ", " ", "　", "\u0085", " ", " ", "​", "﻿"]


def hexs(s):
    b = s.encode("utf-8")
    return b.hex() if b else "-"


def coq_ustr(s):
    return "([" + "; ".join(str(ord(c)) for c in s) + "]%Z : list Z)"


def text_case(kind, s, tag):
    line = "text %s %s" % (kind, hexs(s))
    term = ("text_ma %s" if kind == "ma" else "text_source %s") % coq_ustr(s)
    c = Simple(line, term, tag, exact=False, extra={"text": s, "entry": kind})
    c.oracle = lambda io: (["%s::from_str panicked on %r" % (kind, s)] if io and io[0] == T_PANIC else None)
    return c


def gen(rng, tier):
    cases = []
    r = rng.fork("texts")
    n = 150 if tier == "quick" else 1500
    mas = []
    for k in MA_KINDS:
        for ln in ("0", "1", "5", "14", "127", "128", "254", "255", "256", "300", "65535", "65536", "05", "+5", "-5", "", "5 ", " 5",
                   "5.0", "1e2", "٥", "５", "99999999999999999999"):
            mas.append("%s-%s" % (k, ln))
    mas += ["", "-", "--", "sma", "sma-", "-5", "sma--5", "SMA-5", "Sma-5", " sma-5", "sma-5 ", "sma -5", "sma- 5", "ema-5-6", "lin_reg-5",
            "linreg-5", "é-3", "сма-3", "日本-5", "💥-1", "ｓｍａ-3", "sma‐5", "sma-5\u0000", "foo-5", "wsma-128", "vidya-255", "sma-+", "sma-+0",
            "sma-00000000000000000000005", "sma-0x5", "-sma-5"]
    for i in range(n):
        k = r.choice(MA_KINDS + ["SMA", "xma", "", "é"])
        ln = r.choice([str(r.range(0, 300)), "+" + str(r.range(0, 300)), "0" * r.range(1, 4) + str(r.range(0, 99)), "", "x", "-1"])
        sep = r.choice(["-", "-", "-", "_", "", "--", " - ", "‐"])
        mas.append(k + sep + ln)
    for s in mas:
        cases.append(text_case("ma", s, "ma-text"))
    srcs = []
    for nm in SRC_NAMES:
        srcs += [nm, nm.upper(), nm.capitalize(), " " + nm, nm + " ", "\t" + nm + "\n", nm + "x", nm[:-1], nm + " ", " " + nm,
                 "　" + nm + "\u0085", nm + "​", "﻿" + nm, nm.replace("o", "ο")]
    srcs += ["", " ", "ohlc4", "hl 2", "h l 2", "ｔｐ", "TP", "Tp", "tP", "HLC3", "ＨＬ２", "İ", "ſ", "K"]
    for i in range(n // 2):
        nm = r.choice(SRC_NAMES)
        s = "".join(r.choice(WHITE) for _ in range(r.below(3))) + "".join(c.upper() if r.chance(0.3) else c for c in nm) + \
            "".join(r.choice(WHITE) for _ in range(r.below(3)))
        srcs.append(s)
    for s in srcs:
        cases.append(text_case("source", s, "source-text"))
    return cases
