"""Window suite (C01, reused by C13/C19/C20): op programs over Window<u64>."""
from ..core import T_NONE, T_ERR, T_PANIC

PMAX = 255


class WinCase:
    def __init__(self, ctor, ops, kind):
        self.ctor = ctor  # tuple
        self.ops = ops    # list of tuples
        self.kind = kind

    def line(self):
        c = self.ctor
        if c[0] == "new":
            s = "new %d %d" % (c[1], c[2])
        elif c[0] in ("parts", "deser"):
            s = "%s %d %s %d" % (c[0], len(c[1]), " ".join(map(str, c[1])), c[2])
        elif c[0] == "vec":
            s = "vec %d %s" % (len(c[1]), " ".join(map(str, c[1])))
        else:
            s = "empty"
        parts = ["window", s]
        for op in self.ops:
            parts.append("; " + " ".join(map(str, op)))
        return " ".join(parts)

    def term(self):
        c = self.ctor
        lst = lambda l: "[" + "; ".join(map(str, l)) + "]"
        z = lambda v: "(%d)" % v
        if c[0] == "new":
            cs = "CNew %s %s" % (z(c[1]), z(c[2]))
        elif c[0] == "parts":
            cs = "CFromParts %s %s" % (lst(c[1]), z(c[2]))
        elif c[0] == "deser":
            cs = "CDeser %s %s" % (lst(c[1]), z(c[2]))
        elif c[0] == "vec":
            cs = "CFromVec %s" % lst(c[1])
        else:
            cs = "CEmpty"
        names = {"push": "WPush", "newest": "WNewest", "oldest": "WOldest", "get": "WGet", "index": "WIndex",
                 "len": "WLen", "isempty": "WIsEmpty", "slice": "WSlice", "iter": "WIter", "iterrev": "WIterRev",
                 "iterall": "WIterAll", "iterrevall": "WIterRevAll", "serde": "WSerde", "reparts": "WReparts",
                 "serdeswap": "WSerdeSwap", "repartsswap": "WRepartsSwap"}
        ops = []
        for op in self.ops:
            if op[0] == "clone":
                continue  # cloning is the identity on model values
            ops.append(names[op[0]] + "".join(" " + z(a) for a in op[1:]))
        return "wrun (%s) [%s]" % (cs, "; ".join(ops))

    def meta(self):
        return {"suite": "window", "kind": self.kind, "line": self.line()}

    # ---- list-level specification (the property's own statement), independent of the model
    def oracle(self, impl):
        """returns None if the implementation's output is what the sequence
        specification demands, else a description.  Representation-specific
        outputs (raw buffer order / exported index) are skipped."""
        c = self.ctor
        seq = None  # oldest first
        if c[0] == "new":
            if 0 <= c[1] <= PMAX - 1:
                seq = [c[2]] * c[1]
            else:
                return None if impl in ([T_PANIC], [T_ERR]) else "Window::new(%d) accepted" % c[1]
        elif c[0] in ("parts", "deser", "vec"):
            b = c[1]
            idx = c[2] if c[0] != "vec" else 0
            ok = len(b) <= PMAX - 1 and (0 <= idx < len(b) or (len(b) == 0 and idx == 0))
            if not ok:
                if c[0] == "deser":
                    return None if impl == [T_ERR] else "malformed serialized window not rejected with Err: %s" % impl[:3]
                return None if impl in ([T_PANIC], [T_ERR]) else "from_parts accepted malformed parts"
            seq = b[idx:] + b[:idx]
        else:
            seq = []
        if impl is None or len(impl) == 0 or impl[0] != 0:
            return "valid construction failed: %s" % (impl[:3] if impl else impl)
        pos = 1

        def take(k):
            nonlocal pos
            r = impl[pos:pos + k]
            pos += k
            return r

        for op in self.ops:
            n = len(seq)
            newest_first = seq[::-1]
            name = op[0]
            if name == "push":
                exp = [seq[0]] if n else [T_PANIC]
                got = take(1)
                if got != exp:
                    return "push returned %s, expected %s" % (got, exp)
                if n:
                    seq = seq[1:] + [op[1]]
            elif name == "newest":
                exp = [seq[-1]] if n else [T_PANIC]
                got = take(1)
                if got != exp:
                    return "newest %s expected %s" % (got, exp)
            elif name == "oldest":
                exp = [seq[0]] if n else [T_PANIC]
                got = take(1)
                if got != exp:
                    return "oldest %s expected %s" % (got, exp)
            elif name == "get":
                i = op[1]
                exp = [newest_first[i]] if i < n else [T_NONE]
                got = take(1)
                if got != exp:
                    return "get(%d) %s expected %s" % (i, got, exp)
            elif name == "index":
                i = op[1]
                exp = [newest_first[i]] if i < n else [T_PANIC]
                got = take(1)
                if got != exp:
                    return "index(%d) %s expected %s" % (i, got, exp)
            elif name == "len":
                got = take(1)
                if got != [n]:
                    return "len %s expected %d" % (got, n)
            elif name == "isempty":
                got = take(1)
                if got != [1 if n == 0 else 0]:
                    return "is_empty %s" % got
            elif name == "slice":
                k = impl[pos] if pos < len(impl) else 0
                got = take(1 + max(k, 0))
                if sorted(got[1:]) != sorted(seq) or k != n:
                    return "as_slice is not a permutation of the content"
            elif name in ("iter", "iterrev"):
                k = op[1]
                order = newest_first if name == "iter" else seq
                items = order[:k]
                rest = order[k:]
                exp = [len(items)] + items + [len(rest), len(rest)] + [rest[-1] if rest else T_NONE]
                got = take(len(exp))
                if got != exp:
                    return "%s split at %d: %s expected %s" % (name, k, got, exp)
            elif name in ("iterall", "iterrevall"):
                order = newest_first if name == "iterall" else seq
                exp = [n] + order
                got = take(len(exp))
                if got != exp:
                    return "%s: %s expected %s" % (name, got, exp)
            elif name in ("serde", "reparts"):
                # dump of the restored window: len, buf.., index, size
                if pos < len(impl) and impl[pos] in (T_ERR, T_PANIC):
                    return "%s of a valid window failed (%d)" % (name, impl[pos])
                k = impl[pos] if pos < len(impl) else 0
                got = take(1 + k + 2)
                if len(got) != k + 3 or k != n:
                    return "%s: restored window has another capacity" % name
                b, idx = got[1:1 + k], got[1 + k]
                if not (0 <= idx < k or (k == 0 and idx == 0)) or b[idx:] + b[:idx] != seq or got[-1] != n:
                    return "%s: restored window represents another sequence" % name
            elif name in ("serdeswap", "repartsswap"):
                got = take(1)
                if got != [0]:
                    return "%s of a valid window failed: %s" % (name, got)
            elif name == "clone":
                pass
        if pos != len(impl):
            return "trailing output"
        return None


OBS_ALL = lambda n: ([("len",), ("isempty",), ("newest",), ("oldest",), ("slice",), ("iterall",), ("iterrevall",),
                      ("serde",), ("reparts",)]
                     + [("get", i) for i in list(range(0, n + 2)) + [254, 255]]
                     + [("index", i) for i in list(range(0, n + 2)) + [255]]
                     + [("iter", k) for k in range(0, n + 2)]
                     + [("iterrev", k) for k in range(0, n + 2)])


def big_capacity_sweep(safe_only):
    """large capacities (beyond half of the PeriodType range) at several ring phases: EVERY position read by index and by get"""
    cases = []
    for n in (127, 128, 129, 130, 200, 253, 254):
        for p in (0, 1, n // 2, n - 1, n, n + 1):
            ops = [("push", 100000 + j) for j in range(p)]
            ops += [("index", i) for i in range(n)] + [("get", i) for i in range(n)] + [("get", n), ("get", 255), ("newest",), ("oldest",)]
            if not safe_only:
                ops += [("index", n), ("index", 255)]
            cases.append(WinCase(("new", n, 7), ops, "big-capacity-sweep"))
    return cases


def gen(rng, tier):
    cases = []
    maxcap = 4 if tier == "quick" else 6
    # (a) exhaustive small scope: every capacity, every fill level and phase, every observer and split
    for n in range(0, maxcap + 1):
        for p in range(0, 2 * n + 2):
            ops = [("push", 100 + j) for j in range(p)] + OBS_ALL(n)
            cases.append(WinCase(("new", n, 7), ops, "exhaustive"))
            # observers after restoring through serde / from_parts, then more pushes
            ops2 = [("push", 100 + j) for j in range(p)] + [("serdeswap",)] + \
                   [("push", 200 + j) for j in range(2)] + [("repartsswap",), ("clone",)] + OBS_ALL(n)
            cases.append(WinCase(("new", n, 7), ops2, "exhaustive-restore"))
    # (b) from_parts / From<Vec> / deserialize at every index
    for n in range(0, maxcap + 1):
        b = [10 + j for j in range(n)]
        for idx in range(0, n + 2):
            tail = [("push", 50), ("push", 51)] + OBS_ALL(n)
            cases.append(WinCase(("parts", b, idx), tail, "from_parts"))
            cases.append(WinCase(("deser", b, idx), tail, "deser"))
        cases.append(WinCase(("vec", b), OBS_ALL(n), "from_vec"))
    # (c) boundary capacities and malformed serialized forms
    for n in (253, 254, 255):
        cases.append(WinCase(("new", n, 1), [("len",), ("get", 0), ("get", 253), ("get", 254), ("get", 255),
                                            ("push", 2), ("iter", 3), ("iterrev", 2), ("serde",)] if n <= 255 else [],
                             "boundary-new"))
    for ln in (253, 254, 255, 256):
        b = list(range(ln))
        for idx in (0, 1, ln - 1, ln, 255, 256, 70000):
            cases.append(WinCase(("deser", b, idx), [("len",), ("newest",), ("oldest",), ("get", 0), ("iter", 2)], "deser-boundary"))
        cases.append(WinCase(("parts", b, ln - 1 if ln else 0), [("len",), ("newest",)], "parts-boundary"))
    cases.append(WinCase(("deser", [1, 2, 3], -1), [], "deser-boundary"))
    cases.append(WinCase(("empty",), OBS_ALL(0) + [("push", 1)], "empty"))
    # (d) random op programs
    nprog = 60 if tier == "quick" else 600
    nops = 80 if tier == "quick" else 400
    caps = [0, 1, 2, 3, 4, 5, 7, 8, 9, 15, 16, 17, 63, 64, 127, 128, 200, 253, 254]
    for k in range(nprog):
        r = rng.fork("winprog%d" % k)
        n = r.choice(caps) if r.chance(0.7) else r.range(0, 254)
        ops = []
        label = 1000
        for _ in range(nops):
            u = r.below(100)
            if u < 45:
                ops.append(("push", label)); label += 1
            elif u < 55:
                ops.append(("get", r.choice([0, 1, n - 1 if n else 0, n, n + 1 if n < 255 else 255, r.range(0, 255), 255])))
            elif u < 62:
                ops.append(("index", r.choice([0, n - 1 if n else 0, n if n <= 255 else 255, r.range(0, 255)])))
            elif u < 70:
                ops.append(("iter", r.choice([0, 1, n // 2, n - 1 if n else 0, n, n + 1])))
            elif u < 78:
                ops.append(("iterrev", r.choice([0, 1, n // 2, n - 1 if n else 0, n, n + 1])))
            elif u < 82:
                ops.append((r.choice(["newest", "oldest", "len", "isempty"]),))
            elif u < 86:
                ops.append((r.choice(["iterall", "iterrevall", "slice"]),))
            elif u < 90:
                ops.append((r.choice(["serde", "reparts"]),))
            elif u < 96:
                ops.append((r.choice(["serdeswap", "repartsswap"]),))
            else:
                ops.append(("clone",))
        cases.append(WinCase(("new", n, 999), ops, "random-program"))
    cases += big_capacity_sweep(False)
    return cases


def gen_safe(rng, tier):
    """programs made only of calls on which the default build cannot panic (C19's quantifier): every
    observer on empty windows built in every way, get with every index, and full programs for n >= 1"""
    cases = []
    safe0 = [("len",), ("isempty",), ("slice",), ("iterall",), ("iterrevall",), ("serde",), ("reparts",), ("clone",)] + \
            [("get", i) for i in (0, 1, 2, 254, 255)] + [("iter", k) for k in (0, 1, 2)] + [("iterrev", k) for k in (0, 1, 2)]
    for ctor in (("new", 0, 7), ("empty",), ("vec", []), ("parts", [], 0), ("deser", [], 0)):
        cases.append(WinCase(ctor, list(safe0), "safe-empty"))
        cases.append(WinCase(ctor, [("serdeswap",)] + list(safe0) + [("repartsswap",)] + list(safe0), "safe-empty"))
    for n in range(1, 6 if tier == "quick" else 9):
        for p in range(0, 2 * n + 2):
            ops = [("push", 100 + j) for j in range(p)]
            ops += [("len",), ("isempty",), ("newest",), ("oldest",), ("slice",), ("iterall",), ("iterrevall",), ("serde",), ("reparts",)]
            ops += [("get", i) for i in list(range(0, n + 2)) + [254, 255]] + [("index", i) for i in range(0, n)]
            ops += [("iter", k) for k in range(0, n + 2)] + [("iterrev", k) for k in range(0, n + 2)]
            cases.append(WinCase(("new", n, 7), ops, "safe-program"))
    for k in range(20 if tier == "quick" else 200):
        r = rng.fork("safe%d" % k)
        n = r.choice([1, 2, 3, 5, 8, 17, 64, 254])
        ops = []
        for _ in range(120):
            u = r.below(10)
            if u < 4:
                ops.append(("push", r.range(0, 10 ** 6)))
            elif u < 6:
                ops.append(("get", r.choice([0, n - 1, n, n + 1 if n < 255 else 255, r.range(0, 255)])))
            elif u == 6:
                ops.append(("index", r.range(0, n - 1)))
            elif u == 7:
                ops.append((r.choice(["iter", "iterrev"]), r.range(0, n + 1)))
            elif u == 8:
                ops.append((r.choice(["newest", "oldest", "serdeswap", "repartsswap", "clone"]),))
            else:
                ops.append((r.choice(["iterall", "iterrevall", "slice", "serde"]),))
        cases.append(WinCase(("new", n, 999), ops, "safe-random"))
    cases += big_capacity_sweep(True)
    return cases
