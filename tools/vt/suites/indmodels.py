"""Indicator MODEL cases: the Gallina models of Indicators/*.v executed on binary64 against the
implementation (harness `indicator <Name> run`).  The configuration is the Default of the source
(taken from the generated tables) overridden by well-formed `set` texts."""
import re
from ..core import coq_float, T_ERR, T_PANIC
from . import indicators as ind
from .indicators import ICase
from .numeric import cq_candle

KIND = {"sma": "KSMA", "wma": "KWMA", "hma": "KHMA", "rma": "KRMA", "ema": "KEMA", "dma": "KDMA", "dema": "KDEMA", "tma": "KTMA",
        "tema": "KTEMA", "wsma": "KWSMA", "smm": "KSMM", "swma": "KSWMA", "trima": "KTRIMA", "linreg": "KLinReg", "vidya": "KVidya"}
SRC = {"close": "SClose", "high": "SHigh", "low": "SLow", "tp": "STP", "hlc3": "STP", "hl2": "SHL2", "open": "SOpen",
       "volume": "SVolume", "volumed_price": "SVolumedPrice", "volumedprice": "SVolumedPrice"}


def eff_config(t, sets):
    """field -> ('ma', kind, n) | ('src', name) | ('int', n) | ('float', x) | ('bool', b)"""
    cfg = {}
    for f in t["fields"]:
        d = t["defaults"][f["name"]]
        ty = f["ty"]
        if ty == "M":
            m = re.fullmatch(r"MA::(\w+)\((\d+)\)", d)
            cfg[f["name"]] = ("ma", m.group(1).lower(), int(m.group(2)))
        elif ty == "Source":
            cfg[f["name"]] = ("src", d.split("::")[1].lower())
        elif ty in ("PeriodType", "u8"):
            cfg[f["name"]] = ("int", int(d))
        elif ty == "ValueType":
            cfg[f["name"]] = ("float", float(d))
        elif ty == "bool":
            cfg[f["name"]] = ("bool", d == "true")
        else:
            raise ValueError(ty)
    for k, v in sets:
        kind = cfg[k][0]
        if kind == "ma":
            a, b = v.split("-")
            cfg[k] = ("ma", a, int(b))
        elif kind == "src":
            cfg[k] = ("src", v)
        elif kind == "int":
            cfg[k] = ("int", int(v))
        elif kind == "float":
            cfg[k] = ("float", float(v))
        else:
            cfg[k] = ("bool", v == "true")
    return cfg


def cq(v):
    if v[0] == "ma":
        return "(MAcfg %s (%d))" % (KIND[v[1]], v[2])
    if v[0] == "src":
        return SRC[v[1]]
    if v[0] == "int":
        return "(%d)" % v[1]
    if v[0] == "float":
        return coq_float(v[1])
    return "true" if v[1] else "false"


# name -> (init term template over cfg fields, next function)
MODELS = {
    "MACD": (lambda c: "macd_init (mkMacdCfg %s %s %s %s)" % (cq(c["ma1"]), cq(c["ma2"]), cq(c["signal"]), cq(c["source"])), "macd_next"),
    "BollingerBands": (lambda c: "boll_init (mkBollCfg %s %s %s)" % (cq(c["avg_size"]), cq(c["sigma"]), cq(c["source"])), "boll_next"),
    "DonchianChannel": (lambda c: "donch_init %s" % cq(c["period"]), "donch_next"),
    "Envelopes": (lambda c: "env_init (mkEnvCfg %s %s %s %s)" % (cq(c["ma"]), cq(c["k"]), cq(c["source"]), cq(c["source2"])), "env_next"),
    "MomentumIndex": (lambda c: "momi_init %s %s %s" % (cq(c["period1"]), cq(c["period2"]), cq(c["source"])), "momi_next"),
    "RelativeStrengthIndex": (lambda c: "rsi_init (mkRsiCfg %s %s %s)" % (cq(c["ma"]), cq(c["zone"]), cq(c["source"])), "rsi_next"),
    "ChandeMomentumOscillator": (lambda c: "cmo_init %s %s %s" % (cq(c["period"]), cq(c["zone"]), cq(c["source"])), "cmo_next"),
    "MoneyFlowIndex": (lambda c: "mfi_init %s %s" % (cq(c["period"]), cq(c["zone"])), "mfi_next"),
    "ChaikinMoneyFlow": (lambda c: "cmf_init %s" % cq(c["size"]), "cmf_next"),
    "StochasticOscillator": (lambda c: "sto_init (mkStoCfg %s %s %s %s)" % (cq(c["period"]), cq(c["ma"]), cq(c["signal"]), cq(c["zone"])), "sto_next"),
    "KeltnerChannel": (lambda c: "kelt_init %s %s %s" % (cq(c["ma"]), cq(c["sigma"]), cq(c["source"])), "kelt_next"),
    "PriceChannelStrategy": (lambda c: "pch_init %s %s" % (cq(c["period"]), cq(c["sigma"])), "pch_next"),
    "CommodityChannelIndex": (lambda c: "ccii_init %s %s %s" % (cq(c["period"]), cq(c["zone"]), cq(c["source"])), "ccii_next"),
    "DetrendedPriceOscillator": (lambda c: "dpo_init %s %s" % (cq(c["ma"]), cq(c["source"])), "dpo_next"),
    "ParabolicSAR": (lambda c: "psar_init %s %s" % (cq(c["af_step"]), cq(c["af_max"])), "psar_next"),
    "TrueStrengthIndex": (lambda c: "tsii_init %s %s %s %s %s" % (cq(c["period1"]), cq(c["period2"]), cq(c["period3"]), cq(c["zone"]), cq(c["source"])), "tsii_next"),
    "SMIErgodicIndicator": (lambda c: "smi_init %s %s %s %s %s" % (cq(c["period1"]), cq(c["period2"]), cq(c["signal"]), cq(c["zone"]), cq(c["source"])), "smi_next"),
    "Trix": (lambda c: "trix_init %s %s %s" % (cq(c["period1"]), cq(c["signal"]), cq(c["source"])), "trix_next"),
    "KnowSureThing": (lambda c: "kst_init (mkKstCfg %s %s %s %s %s %s %s %s %s)" % tuple(cq(c[k]) for k in ("period1", "period2", "period3", "period4", "ma1", "ma2", "ma3", "ma4", "signal")), "kst_next"),
    "EldersForceIndex": (lambda c: "efi_init %s %s %s" % (cq(c["ma"]), cq(c["period2"]), cq(c["source"])), "efi_next"),
    "AverageDirectionalIndex": (lambda c: "adx_init (mkAdxCfg %s %s %s %s)" % (cq(c["method1"]), cq(c["method2"]), cq(c["period1"]), cq(c["zone"])), "adx_next"),
    "AwesomeOscillator": (lambda c: "ao_init (mkAoCfg %s %s %s %s %s %s)" % tuple(cq(c[k]) for k in ("ma1", "ma2", "source", "left", "right", "conseq_peaks")), "ao_next"),
    "ChaikinOscillator": (lambda c: "co_init %s %s %s" % (cq(c["ma1"]), cq(c["ma2"]), cq(c["window"])), "co_next"),
    "HullMovingAverage": (lambda c: "hmai_init %s %s %s %s" % (cq(c["period"]), cq(c["left"]), cq(c["right"]), cq(c["source"])), "hmai_next"),
    "PivotReversalStrategy": (lambda c: "prs_init %s %s" % (cq(c["left"]), cq(c["right"])), "prs_next"),
    "IchimokuCloud": (lambda c: "ichi_init %s %s %s %s %s" % tuple(cq(c[k]) for k in ("l1", "l2", "l3", "m", "source")), "ichi_next"),
    "RelativeVigorIndex": (lambda c: "rvi_init %s %s %s %s" % (cq(c["period1"]), cq(c["period2"]), cq(c["signal"]), cq(c["zone"])), "rvi_next"),
    "WoodiesCCI": (lambda c: "wcci_init %s %s %s %s" % (cq(c["period1"]), cq(c["period2"]), cq(c["s1_lag"]), cq(c["source"])), "wcci_next"),
    "CoppockCurve": (lambda c: "cop_init (mkCopCfg %s %s %s %s %s %s %s)" % tuple(cq(c[k]) for k in ("ma1", "s3_ma", "period2", "period3", "s2_left", "s2_right", "source")), "cop_next"),
    "ChandeKrollStop": (lambda c: "cks_init %s %s %s %s" % (cq(c["ma"]), cq(c["x"]), cq(c["q"]), cq(c["source"])), "cks_next"),
    "EaseOfMovement": (lambda c: "eom_init %s %s" % (cq(c["ma"]), cq(c["period2"])), "eom_next"),
    "Kaufman": (lambda c: "kauf_init (mkKaufCfg %s %s %s %s %s %s %s)" % tuple(cq(c[k]) for k in ("period1", "period2", "period3", "filter_period", "square_smooth", "k", "source")), "kauf_next"),
    "KlingerVolumeOscillator": (lambda c: "kvo_init %s %s %s" % (cq(c["ma1"]), cq(c["ma2"]), cq(c["signal"])), "kvo_next"),
    "TrendStrengthIndex": (lambda c: "tsx_init %s %s %s %s" % (cq(c["period"]), cq(c["zone"]), cq(c["reverse_offset"]), cq(c["source"])), "tsx_next"),
    "Aroon": (lambda c: "aroon_init %s %s %s" % (cq(c["period"]), cq(c["signal_zone"]), cq(c["over_zone_period"])), "aroon_next"),
}


class IMCase(ICase):
    def __init__(self, t, sets, c0, cs, kind="model", meta=None):
        super().__init__(t["config"], "run", sets, c0, cs, kind=kind, meta=meta)
        self.t = t
        self.zero_loose = True

    def term(self):
        init, nxt = MODELS[self.name]
        cfg = eff_config(self.t, self.sets)
        return "ind_run (%s %s) %s [%s]" % (init(cfg), cq_candle(self.c0), nxt, "; ".join(cq_candle(c) for c in self.cs))

    def canon(self, io):
        p = ind.parse(io, len(self.sets))
        if p.panic_in_set:
            return [T_PANIC]
        if p.init != 0:
            return [p.init]
        steps, panic_at, _ = ind.parse_steps(p.rest)
        out = [0]
        for (vals, sigs, vl, sl) in steps:
            out += [len(vals)] + list(vals) + [len(sigs)] + list(sigs)
        if panic_at is not None:
            out.append(T_PANIC)
        return out


HEADER = ("From Yata Require Import Exec.IndRun Spec.Hist Spec.MethodDefs Spec.IndicatorDefs.\nFrom Coq Require Import Floats.\nLocal Existing Instance PW8.\n")


# ---------------------------------------------------------------- published formulas (Spec/IndicatorDefs.v)
# name -> (values function over cfg, number of values, kind: "lin" linear in prices | "osc" bounded quotient)
SPECS = {
    "MACD": (lambda c: "macd_values %s %s %s %s" % (cq(c["ma1"]), cq(c["ma2"]), cq(c["signal"]), cq(c["source"])), 2, "lin"),
    "BollingerBands": (lambda c: "boll_values %s %s %s" % (cq(c["avg_size"]), cq(c["sigma"]), cq(c["source"])), 3, "lin"),
    "DonchianChannel": (lambda c: "donch_values %s" % cq(c["period"]), 3, "lin"),
    "Envelopes": (lambda c: "env_values %s %s %s %s" % (cq(c["ma"]), cq(c["k"]), cq(c["source"]), cq(c["source2"])), 3, "lin"),
    "MomentumIndex": (lambda c: "momi_values %s %s %s" % (cq(c["period1"]), cq(c["period2"]), cq(c["source"])), 2, "lin"),
    "DetrendedPriceOscillator": (lambda c: "dpo_values %s %s" % (cq(c["ma"]), cq(c["source"])), 1, "lin"),
    "RelativeStrengthIndex": (lambda c: "rsi_values %s %s" % (cq(c["ma"]), cq(c["source"])), 1, "osc"),
    "ChandeMomentumOscillator": (lambda c: "cmo_values %s %s" % (cq(c["period"]), cq(c["source"])), 1, "osc"),
    "StochasticOscillator": (lambda c: "sto_values %s %s %s" % (cq(c["period"]), cq(c["ma"]), cq(c["signal"])), 2, "osc"),
    "Aroon": (lambda c: "aroon_values %s" % cq(c["period"]), 2, "osc"),
    "ChaikinMoneyFlow": (lambda c: "cmf_values %s" % cq(c["size"]), 1, "osc"),
    "MoneyFlowIndex": (lambda c: "mfi_values %s %s" % (cq(c["period"]), cq(c["zone"])), 3, "osc"),
    "KeltnerChannel": (lambda c: "kelt_values %s %s %s" % (cq(c["ma"]), cq(c["sigma"]), cq(c["source"])), 3, "lin"),
    "PriceChannelStrategy": (lambda c: "pch_values %s %s" % (cq(c["period"]), cq(c["sigma"])), 2, "lin"),
    "CommodityChannelIndex": (lambda c: "ccii_values %s %s" % (cq(c["period"]), cq(c["source"])), 1, "osc"),
    "IchimokuCloud": (lambda c: "ichi_values %s %s %s %s" % (cq(c["l1"]), cq(c["l2"]), cq(c["l3"]), cq(c["m"])), 4, "lin"),
    "EldersForceIndex": (lambda c: "efi_values %s %s %s" % (cq(c["ma"]), cq(c["period2"]), cq(c["source"])), 1, "vol"),
    "KlingerVolumeOscillator": (lambda c: "kvo_values %s %s %s" % (cq(c["ma1"]), cq(c["ma2"]), cq(c["signal"])), 2, "vol"),
    "KnowSureThing": (lambda c: "kst_values %s %s %s %s %s %s %s %s %s" % tuple(cq(c[k]) for k in ("period1", "period2", "period3", "period4", "ma1", "ma2", "ma3", "ma4", "signal")), 2, "osc"),
    "TrueStrengthIndex": (lambda c: "tsii_values %s %s %s %s" % (cq(c["period1"]), cq(c["period2"]), cq(c["period3"]), cq(c["source"])), 2, "osc"),
    "Trix": (lambda c: "trix_values %s %s %s" % (cq(c["period1"]), cq(c["signal"]), cq(c["source"])), 2, "lin"),
    "ChaikinOscillator": (lambda c: "co_values %s %s %s" % (cq(c["ma1"]), cq(c["ma2"]), cq(c["window"])), 1, "vol"),
    "CoppockCurve": (lambda c: "cop_values %s %s %s %s %s" % (cq(c["ma1"]), cq(c["s3_ma"]), cq(c["period2"]), cq(c["period3"]), cq(c["source"])), 2, "osc"),
}


SPEC_STEPS = 80   # the from-scratch formula costs O(t * window) per step (O(t^2) for cascades): evaluated on a prefix


def spec_term_for(case, limit=SPEC_STEPS):
    if case.name not in SPECS:
        return None
    f, nv, kind = SPECS[case.name]
    cfg = eff_config(case.t, case.sets)
    return "ind_spec (%s) %s [] [%s]" % (f(cfg), cq_candle(case.c0), "; ".join(cq_candle(c) for c in case.cs[:limit]))
