"""Numeric method suites (C02, C03, ...): for every case
   * the implementation (harness), * the bit-exact Gallina model (vm_compute on NumF64) and
   * the from-scratch DEFINITION of Spec/MethodDefs.v evaluated on NumF64 (the oracle)
   are run on the same inputs.  impl vs model: bit-for-bit.  impl vs definition: the
   rounding allowance of DESIGN.md section 5 (classes E / A / Q / D)."""
import math
from ..core import coq_float, f2bits, bits2f, T_ERR, T_PANIC
from .. import gens

U = 2.0 ** -53
K = 64.0


def flist(xs):
    return "[" + "; ".join(coq_float(x) for x in xs) + "]"


def cq_candle(c):
    return "(mkC %s)" % " ".join(coq_float(x) for x in c)


def hex_candle(c):
    return " ".join("%016x" % f2bits(x) for x in c)


class MCase:
    """one method run.  spec: Coq term of the definition run (or None);
    cls: allowance class; k_spec: values per step in the spec output"""

    def __init__(self, entry, line, term, spec, cls, n_win, gain, mags, kind, extra=None, stride=1,
                 out_width=1, vmags=None, oracle_fn=None):
        self.entry, self._line, self._term, self._spec = entry, line, term, spec
        self.cls, self.n_win, self.gain, self.mags, self.kind = cls, n_win, gain, mags, kind
        self.extra = extra or {}
        self.stride = stride          # impl slots per step (2 when peek is interleaved)
        self.out_width = out_width    # impl values per output (5 for candles)
        self.exact = False
        self.zero_loose = True        # sign of zero is not compared (DESIGN.md section 4)
        self.oracle_fn = oracle_fn

    def line(self):
        return self._line

    def term(self):
        return self._term

    def spec_term(self):
        return self._spec

    def meta(self):
        m = {"suite": "method", "kind": self.kind, "entry": self.entry, "line": self._line[:400000],
             "class": self.cls}
        m.update(self.extra)
        return m

    # without a definition run: only totality (a constructor the model accepts must not panic; next must not panic)
    def oracle(self, io):
        if io and io[0] == T_PANIC:
            return ["the constructor panicked"]
        if io and io[0] == 0 and io[-1] == T_PANIC:
            return ["next panicked"]
        return None

    # ---- the property oracle: implementation output against the definition
    def oracle2(self, io, so, ctx):
        if io and io[0] == T_PANIC:
            return ["the constructor panicked"]
        if not io or io[0] != 0:
            return None  # constructor rejected: nothing to compare (C10 decides whether rightly)
        outs = io[1:]
        if outs and outs[-1] == T_PANIC:
            return ["next panicked at step %d" % ((len(outs) - 1) // (self.stride * self.out_width))]
        if self.oracle_fn is not None:
            return self.oracle_fn(self, outs, so, ctx)
        res = []
        w = self.out_width * self.stride
        nsteps = len(outs) // w
        worst = 0.0
        U = getattr(self, "u", globals()["U"])
        for t in range(nsteps):
            M = self.mags[min(t, len(self.mags) - 1)]
            A = K * U * (t + self.n_win + 8) * M * self.gain
            for j in range(self.out_width):
                y = bits2f(outs[t * w + j])
                msg = None
                if self.cls == "E":
                    d = bits2f(so[t * self.out_width + j])
                    if not same_exact(y, d):
                        msg = "step %d: output %r is not the definition's value %r (exact class)" % (t, y, d)
                elif self.cls == "A":
                    d = bits2f(so[t * self.out_width + j])
                    ok, ratio = within(y, d, A)
                    worst = max(worst, ratio)
                    if not ok:
                        msg = "step %d: output %r differs from the from-scratch definition %r by %.3g > allowance %.3g" % (
                            t, y, d, abs(y - d) if finite(y) and finite(d) else float("nan"), A)
                elif self.cls == "Q":
                    d = bits2f(so[t * self.out_width + j])
                    A2 = K * U * (t + self.n_win + 8) * M * M * self.gain
                    ok, ratio = within(y * y, d * d, A2)
                    worst = max(worst, ratio)
                    if not ok or (finite(y) and y < 0):
                        msg = "step %d: output %r vs definition %r: squares differ by more than %.3g" % (t, y, d, A2)
                elif self.cls == "D":
                    num, den = bits2f(so[2 * t]), bits2f(so[2 * t + 1])
                    AN = A
                    AD = A if self.extra.get("den_scale") is None else K * U * (t + self.n_win + 8) * self.extra["den_scale"][min(t, len(self.extra["den_scale"]) - 1)] * self.gain
                    if self.extra.get("num_scale") is not None:
                        AN = K * U * (t + self.n_win + 8) * self.extra["num_scale"][min(t, len(self.extra["num_scale"]) - 1)] * self.gain
                    if not (finite(num) and finite(den)) or abs(den) <= 2 * AD:
                        if not finite(y) and finite(num) and finite(den) and den != 0 and abs(den) > 2 * AD:
                            msg = "step %d: non-finite output" % t
                        continue  # ill-conditioned or undefined quotient: exempt
                    if not finite(y):
                        msg = "step %d: output %r is not finite although the definition is %r / %r" % (t, y, num, den)
                    else:
                        lhs = abs(y * den - num)
                        rhs = AN + abs(y) * AD
                        worst = max(worst, lhs / rhs if rhs > 0 else (0.0 if lhs == 0 else float("inf")))
                        if lhs > rhs:
                            msg = "step %d: output %r is not the quotient %r / %r = %r (cross-multiplied error %.3g > %.3g)" % (
                                t, y, num, den, num / den, lhs, rhs)
                if msg:
                    res.append(msg)
                    if len(res) >= 2:
                        break
            if len(res) >= 2:
                break
        ctx.extra.setdefault("max_error_over_allowance", {})
        cur = ctx.extra["max_error_over_allowance"].get(self.entry, 0.0)
        ctx.extra["max_error_over_allowance"][self.entry] = max(cur, round(worst, 4))
        return res


def finite(x):
    return x == x and abs(x) != math.inf


def same_exact(y, d):
    if y != y or d != d:
        return (y != y) and (d != d)
    return y == d  # +0 == -0


def within(y, d, A):
    if not finite(d) or not finite(y):
        if d != d or y != y:
            return ((d != d) and (y != y)) or not finite(d), 0.0
        return (y == d) or not finite(d), 0.0
    e = abs(y - d)
    if A == 0:
        return e == 0, (0.0 if e == 0 else float("inf"))
    return e <= A, e / A


def mags_of(x0, xs):
    m = abs(x0) if finite(x0) else 0.0
    out = []
    for x in xs:
        if finite(x):
            m = max(m, abs(x))
        out.append(m)
    return out or [m]


# ---------------------------------------------------------------- method table
# name: (coq new, next, peek, lo, hi, spec kind, spec def, class, gain fn(n), oracle max n)
WINDOWED = {
    "SMA": ("sma_new", "sma_next", "sma_peek", 1, 254, "w", "sma_def", "A", lambda n: 1, 254),
    "WMA": ("wma_new", "wma_next", "wma_peek", 1, 254, "w", "wma_def", "A", lambda n: 1, 254),
    "SWMA": ("swma_new", "swma_next", "swma_peek", 1, 254, "w", "swma_def", "A", lambda n: 1, 254),
    "TRIMA": ("trima_new", "trima_next", "trima_peek", 1, 254, "w", "trima_def", "A", lambda n: 2, 40),
    "HMA": ("hma_new", "hma_next", "hma_peek", 2, 254, "hma", None, "A", lambda n: 6, 40),
    "LinReg": ("linreg_new", "linreg_next", "linreg_peek", 2, 254, "w", "linreg_def", "A", lambda n: 8, 254),
    "Integral": ("integral_new", "integral_next", "integral_peek", 1, 254, "w", "integral_def", "A", lambda n: n, 254),
    "Derivative": ("derivative_new", "derivative_next", None, 1, 254, "w", "derivative_def", "A", lambda n: 2, 254),
    "Momentum": ("momentum_new", "momentum_next", None, 1, 254, "w", "momentum_def", "E", lambda n: 1, 254),
    "RateOfChange": ("roc_new", "roc_next", None, 1, 254, "w", "roc_def", "E", lambda n: 1, 254),
    "Past": ("past_new", "past_next", None, 1, 254, "w", "past_def", "E", lambda n: 1, 254),
    "StDev": ("stdev_new", "stdev_next", "stdev_peek", 2, 254, "w", "stdev_def", "Q", lambda n: 4, 254),
    "MeanAbsDev": ("mad_new", "mad_next", "mad_peek", 1, 254, "w", "mad_def", "A", lambda n: 4, 254),
    "LinearVolatility": ("linvol_new", "linvol_next", "linvol_peek", 1, 254, "w", "linvol_def", "A", lambda n: 2 * n, 254),
    "CCI": ("cci_new", "cci_next", None, 1, 254, "cci", None, "D", lambda n: 4, 254),
}
RECURSIVE = {
    "EMA": ("ema_new", "ema_next", "ema_peek", 1, 254, "l", "ema_def", "A", lambda n: 1),
    "DMA": ("dma_new", "dma_next", "dma_peek", 1, 254, "l", "dma_def", "A", lambda n: 2),
    "TMA": ("tma_new", "tma_next", "tma_peek", 1, 254, "l", "tma_def", "A", lambda n: 3),
    "DEMA": ("dema_new", "dema_next", "dema_peek", 1, 254, "l", "dema_def", "A", lambda n: 4),
    "TEMA": ("tema_new", "tema_next", "tema_peek", 1, 254, "l", "tema_def", "A", lambda n: 8),
    "RMA": ("rma_new", "rma_next", "rma_peek", 1, 255, "l", "rma_def", "A", lambda n: 1),
    "WSMA": ("wsma_new", "wsma_next", "wsma_peek", 1, 127, "l", "wsma_def", "A", lambda n: 1),
}
SCALAR = dict(WINDOWED)
SCALAR.update(RECURSIVE)
SCALAR["Integral0"] = ("integral_new", "integral_next", "integral_peek", 0, 0, "cum", None, "A", lambda n: 1)
SCALAR["Vidya"] = ("vidya_new", "vidya_next", "vidya_peek", 1, 254, "vidya", None, "A", lambda n: 1)


def scalar_case(name, n, x0, xs, kind, peek=False, extra=None, with_spec=True, hi_override=None):
    ent = SCALAR[name]
    new, nxt, pk, lo, hi, skind, sdef, cls, gain = ent[:9]
    omax = ent[9] if len(ent) > 9 else 254
    hname = "Integral" if name == "Integral0" else name
    use_peek = peek and pk is not None
    line = "method %s %s%d %016x %d %s" % (hname, "peek " if use_peek else "", n, f2bits(x0), len(xs), gens.hexs(xs))
    if use_peek:
        term = "run_scalar_peek %s %s %s (%d) %s %s" % (new, nxt, pk, n, coq_float(x0), flist(xs))
    else:
        term = "run_scalar %s %s (%d) %s %s" % (new, nxt, n, coq_float(x0), flist(xs))
    spec = None
    if hi_override is not None:
        hi = hi_override
        omax = max(omax, 1000)
    valid = lo <= n <= hi
    ofn = None
    g = gain(max(n, 1))
    if with_spec and valid and n <= omax:
        if skind == "w":
            spec = "spec_w %s (%d) %s %s" % (sdef, n, coq_float(x0), flist(xs))
        elif skind == "l":
            spec = "spec_l %s (%d) %s %s" % (sdef, n, coq_float(x0), flist(xs))
        elif skind == "hma":
            spec = "def_run (fun h => sgl (hma_def_z (%d) h)) %s [] %s" % (n, coq_float(x0), flist(xs))
        elif skind == "cci":
            spec = "def_run (cci_nd %d) %s [] %s" % (n, coq_float(x0), flist(xs))
        elif skind == "cum":
            spec = "defL_run (fun rh => sgl (cumsum rh)) [] %s" % flist(xs)
        elif skind == "vidya":
            spec = "defL_run (vidya_ud %d %s) [] %s" % (n, coq_float(x0), flist(xs))
            ofn = vidya_oracle(n, x0, xs)
    ex = {"length": n, "steps": len(xs)}
    ex.update(extra or {})
    mags = mags_of(x0, xs)
    if skind == "cum":
        # cumulative sum: the error of a running total grows with the number of terms
        cls = "A"
        mags = [m * (t + 2) for t, m in enumerate(mags)]
    c = MCase(name, line, term, spec, cls, n if skind != "l" else 1, g, mags, kind, ex,
              stride=2 if use_peek else 1, oracle_fn=ofn)
    return c


def vidya_oracle(n, x0, xs):
    """one-step rule (DESIGN.md 5): out_t must be x*k + (1-k)*prev_out with k = f*|CMO|, CMO from
    the from-scratch sums of the last n changes, prev_out the implementation's own previous output"""
    f = 2.0 / (n + 1)

    def fn(case, outs, so, ctx):
        res = []
        prev = x0
        w = case.stride
        # the documented incremental update of the two running sums, replayed in binary64 (same operations, same order):
        # when IT says both sums are exactly zero there is no residue, and the output must be the input itself
        r_up = r_dn = 0.0
        r_last = x0
        r_win = [0.0] * max(n, 1)
        for t in range(len(outs) // w):
            ch = xs[t] - r_last
            r_last = xs[t]
            lft = r_win.pop(0)
            r_win.append(ch)
            r_up = (r_up - lft * (1.0 if lft > 0 else 0.0)) + ch * (1.0 if ch > 0 else 0.0)
            r_dn = (r_dn + lft * (1.0 if lft < 0 else 0.0)) - ch * (1.0 if ch < 0 else 0.0)
            y = bits2f(outs[t * w])
            up, dn = bits2f(so[2 * t]), bits2f(so[2 * t + 1])
            x = xs[t]
            M = case.mags[t]
            A = K * U * (t + n + 8) * M * 2
            As = K * U * (t + n + 8) * 2 * M * n    # allowance of the two window sums
            if not (finite(up) and finite(dn) and finite(y) and finite(prev)):
                prev = y
                continue
            if up == 0 and dn == 0:
                exp_lo = exp_hi = x
            elif up + dn <= 4 * As:
                prev = y
                continue  # CMO ill-conditioned
            else:
                cmo = abs((up - dn) / (up + dn))
                dc = 4 * As / (up + dn)
                klo, khi = f * max(0.0, cmo - dc), f * min(1.0, cmo + dc)
                a, b = x * klo + (1 - klo) * prev, x * khi + (1 - khi) * prev
                exp_lo, exp_hi = min(a, b), max(a, b)
            if up == 0 and dn == 0 and not (exp_lo - A <= y <= exp_hi + A):
                if r_up == 0.0 and r_dn == 0.0:
                    res.append("step %d: the last %d changes are all exactly zero and so are the running sums of the documented update (no residue), "
                               "so the output must be the input %r, but it is %r" % (t, n, x, y))
                else:
                    res.append("step %d: the last %d changes are all exactly zero, so the documented recurrence returns the input %r, but the output is %r (residue left in the running sums)" % (t, n, x, y))
                break
            if not (exp_lo - A <= y <= exp_hi + A):
                res.append("step %d: output %r is outside the image [%r, %r] of the documented Vidya step from the previous output %r" % (t, y, exp_lo, exp_hi, prev))
                if len(res) >= 2:
                    break
            prev = y
        return res
    return fn


def gen_scalar(rng, tier, names, steps=None, peek=False):
    cases = []
    nrand = 3 if tier == "quick" else 24
    steps = steps or (90 if tier == "quick" else 300)
    for name in names:
        ent = SCALAR[name]
        lo, hi = ent[3], ent[4]
        omax = ent[9] if len(ent) > 9 else 254
        r = rng.fork("m-" + name)
        lens = [l for l in gens.BOUNDARY_LENGTHS if lo <= l <= hi]
        if tier == "quick":
            lens = [l for l in lens if l in (1, 2, 3, 5, 8, 17, 64, 127, 254)]
        lens += [r.range(lo, min(hi, 40)) for _ in range(nrand)] + [r.range(lo, hi) for _ in range(nrand)]
        if lo == 0:
            lens = [0] * (4 + nrand)
        for n in lens:
            k = min(steps, max(30, 3 * n + 10)) if tier == "quick" else max(steps, min(3 * n + 10, 2 * steps))
            x0, xs, regime = gens.stream(r, k)
            cases.append(scalar_case(name, n, x0, xs, "stream", peek, {"regime": regime}))
        # small lengths on every regime (ties, plateaus, scale jumps exercise the guards)
        for regime in gens.REGIMES:
            n = r.range(max(lo, 1) if hi > 0 else 0, min(hi, 6)) if hi > 0 else 0
            x0, xs, regime = gens.stream(r, 40 if tier == "quick" else 120, regime=regime)
            cases.append(scalar_case(name, n, x0, xs, "stream-small", peek, {"regime": regime}))
        for n in sorted(set([0, 1, lo - 1, hi + 1, 255]) - set(range(lo, hi + 1))):
            if 0 <= n <= 255 and name != "Integral0":
                cases.append(scalar_case(name, n, 1.5, [1.0, 2.0], "ctor-boundary", peek))
    return cases


# ---------------------------------------------------------------- non-scalar methods
def vwma_case(n, p0, ps, kind, extra=None):
    line = "method VWMA %d %016x %016x %d %s" % (n, f2bits(p0[0]), f2bits(p0[1]), len(ps),
                                                 " ".join("%016x %016x" % (f2bits(a), f2bits(b)) for a, b in ps))
    pl = "[" + "; ".join("(%s, %s)" % (coq_float(a), coq_float(b)) for a, b in ps) + "]"
    p0s = "(%s, %s)" % (coq_float(p0[0]), coq_float(p0[1]))
    term = "run_gen (vwma_new (%d) %s) vwma_next encF None %s" % (n, p0s, pl)
    spec = "def_run (vwma_nd %d) %s [] %s" % (n, p0s, pl) if 1 <= n <= 254 else None
    # numerator scale: max |v*w| * n ; denominator scale: max |w| * n
    mv, mw = abs(p0[0]), abs(p0[1])
    ns, ds = [], []
    for a, b in ps:
        mv, mw = max(mv, abs(a)), max(mw, abs(b))
        ns.append(mv * mw * max(n, 1))
        ds.append(mw * max(n, 1))
    ex = {"length": n, "steps": len(ps), "num_scale": ns, "den_scale": ds}
    ex.update(extra or {})
    return MCase("VWMA", line, term, spec, "D", n, 2, [1.0], kind, ex)


def conv_case(ws, x0, xs, kind, extra=None):
    line = "method Conv %d %s %016x %d %s" % (len(ws), gens.hexs(ws), f2bits(x0), len(xs), gens.hexs(xs))
    term = "run_gen (conv_new %s %s) conv_next encF None %s" % (flist(ws), coq_float(x0), flist(xs))
    spec = None
    sw = sum(ws)
    sa = sum(abs(w) for w in ws)
    if 1 <= len(ws) <= 254 and sw != 0 and finite(sw):
        spec = "def_run (fun h => sgl (conv_def %s h)) %s [] %s" % (flist(ws), coq_float(x0), flist(xs))
    gain = 4 * (sa / abs(sw)) if sw else 1
    ex = {"length": len(ws), "steps": len(xs)}
    ex.update(extra or {})
    return MCase("Conv", line, term, spec, "A", len(ws), gain, mags_of(x0, xs), kind, ex)


def tsi_case(s, l, x0, xs, kind, extra=None):
    line = "method TSI %d %d %016x %d %s" % (s, l, f2bits(x0), len(xs), gens.hexs(xs))
    term = "run_gen (tsi_new (%d) (%d) %s) tsi_next encF None %s" % (s, l, coq_float(x0), flist(xs))
    spec = None
    if 1 <= s <= 254 and 1 <= l <= 254:
        spec = "defL_run (tsi_nd (%d) (%d) %s) [] %s" % (s, l, coq_float(x0), flist(xs))
    ex = {"short": s, "long": l, "steps": len(xs)}
    ex.update(extra or {})
    m = mags_of(x0, xs)
    return MCase("TSI", line, term, spec, "D", 1, 4, [2 * v for v in m], kind, ex)


def candle_case(name, n, c0, cs, kind, extra=None):
    cl = "[" + "; ".join(cq_candle(c) for c in cs) + "]"
    body = "%s %d %s" % (hex_candle(c0), len(cs), " ".join(hex_candle(c) for c in cs))
    width = 1
    pm = []
    m = max(abs(v) for v in c0[:4])
    vm = abs(c0[4]) if finite(c0[4]) else 0.0
    for c in cs:
        m = max(m, max(abs(v) for v in c[:4]))
        vm = max(vm, abs(c[4]) if finite(c[4]) else 0.0)
        pm.append((m, vm))
    if name == "ADI":
        line = "method ADI %d %s" % (n, body)
        term = "run_gen (adi_new (%d) %s) adi_next encF None %s" % (n, cq_candle(c0), cl)
        if n == 0:
            spec = "defL_run (fun rh => sgl (cumsum (map clvv rh))) [] %s" % cl
            mags = [v * (t + 2) for t, (p, v) in enumerate(pm)]
            cls, g, nw = "A", 4, 1
        else:
            spec = "def_run (fun h => sgl (adi_def %d h)) %s [] %s" % (n, cq_candle(c0), cl)
            mags = [v for p, v in pm]
            cls, g, nw = "A", 4 * n, n
        if not (0 <= n <= 254):
            spec = None
    elif name == "TR":
        line = "method TR %s" % body
        term = "run_gen (Ok (tr_new %s)) tr_next encF None %s" % (cq_candle(c0), cl)
        spec = "def_run (fun h => sgl (tr_def h)) %s [] %s" % (cq_candle(c0), cl)
        mags, cls, g, nw = [p for p, v in pm], "E", 1, 1
    else:
        line = "method HeikinAshi %s" % body
        term = "run_gen (Ok (ha_new %s)) ha_next encC None %s" % (cq_candle(c0), cl)
        spec = "defL_run (fun rh => match rh with c :: r => candle_floats (ha_def %s r c) | [] => [] end) [] %s" % (cq_candle(c0), cl)
        mags, cls, g, nw = [p for p, v in pm], "E", 1, 1
        width = 5
    ex = {"length": n, "steps": len(cs)}
    ex.update(extra or {})
    return MCase(name, line, term, spec, cls, nw, g, mags or [1.0], kind, ex, out_width=width)


def gen_other(rng, tier, names):
    cases = []
    nr = 6 if tier == "quick" else 40
    steps = 80 if tier == "quick" else 300
    if "VWMA" in names:
        r = rng.fork("vwma")
        for n in [1, 2, 3, 7, 16, 64, 254] + [r.range(1, 254) for _ in range(nr)]:
            _, vs, regime = gens.stream(r, min(steps, 3 * n + 20) + 1)
            ws = [float(r.range(0, 1000)) * r.choice([1.0, 0.5, 1e3, 1e-3]) if not r.chance(0.15) else 0.0 for _ in vs]
            if r.chance(0.3):  # zero-volume stretch
                a = r.range(0, len(ws) - 1)
                for i in range(a, min(len(ws), a + n + 3)):
                    ws[i] = 0.0
            ps = list(zip(vs, ws))
            cases.append(vwma_case(n, ps[0], ps[1:], "stream", {"regime": regime}))
        for n in (0, 255):
            cases.append(vwma_case(n, (1.0, 2.0), [(2.0, 3.0)], "ctor-boundary"))
    if "Conv" in names:
        r = rng.fork("conv")
        for k in [1, 2, 3, 5, 16, 100, 254] + [r.range(1, 60) for _ in range(nr)]:
            fam = r.below(3)
            if fam == 0:
                ws = [float(r.range(1, 9)) for _ in range(k)]
            elif fam == 1:
                ws = [r.unit() + 0.01 for _ in range(k)]
            else:
                ws = [gens.dyadic(r) for _ in range(k)]
                if abs(sum(ws)) < 0.5:
                    ws[0] += 3.0
            x0, xs, regime = gens.stream(r, min(steps, 2 * k + 20))
            cases.append(conv_case(ws, x0, xs, "stream", {"regime": regime}))
        # kernels with exact zeros at either end and inside, and with negative taps (lagged / differencing kernels)
        for ws in ([1.0, 0.0], [0.0, 1.0], [0.0, 0.0, 2.0], [2.0, 0.0, 0.0], [1.0, 0.0, 3.0, 0.0], [0.0, 1.0, 0.0],
                   [-1.0, 0.0, 1.0, 2.0, 4.0], [4.0, 2.0, 1.0, 0.0, -1.0], [-1.0, 3.0], [3.0, -1.0], [-2.0, -1.0, 0.0]):
            for regime in ("walk", "monotone"):
                x0, xs, regime = gens.stream(r, 30, regime=regime)
                xs = [x + 50.0 for x in xs]
                cases.append(conv_case(ws, x0 + 50.0, xs, "stream-zero-negative-taps", {"regime": regime}))
        for _ in range(nr):
            k = r.range(2, 12)
            ws = [float(r.range(-4, 6)) for _ in range(k)]
            if r.chance(0.5):
                ws[-1] = 0.0
            if r.chance(0.3):
                ws[0] = 0.0
            if abs(sum(ws)) < 1:
                ws[k // 2] += 7.0
            x0, xs, regime = gens.stream(r, 3 * k + 10)
            cases.append(conv_case(ws, x0, xs, "stream-zero-negative-taps", {"regime": regime}))
        cases.append(conv_case([], 1.0, [2.0], "ctor-boundary"))
        cases.append(conv_case([1.0] * 255, 1.0, [2.0], "ctor-boundary"))
    if "TSI" in names:
        r = rng.fork("tsi")
        for (s, l) in [(1, 1), (1, 2), (3, 3), (13, 25), (25, 13), (2, 254), (254, 2)] + [(r.range(1, 254), r.range(1, 254)) for _ in range(nr)]:
            x0, xs, regime = gens.stream(r, steps)
            cases.append(tsi_case(s, l, x0, xs, "stream", {"regime": regime}))
        for regime in ("plateau", "vol-flat-vol", "monotone"):
            for (s, l) in [(3, 3), (13, 25)]:
                x0, xs, regime = gens.stream(r, 3 * steps, regime=regime)
                cases.append(tsi_case(s, l, x0, xs, "stream-long", {"regime": regime}))
        for (s, l) in [(0, 5), (5, 0), (255, 3), (3, 255)]:
            cases.append(tsi_case(s, l, 1.0, [2.0], "ctor-boundary"))
    for name in ("ADI", "TR", "HeikinAshi"):
        if name not in names and not (name == "ADI" and "ADI0" in names):
            continue
        r = rng.fork("c-" + name)
        if name == "ADI":
            lens = []
            if "ADI" in names:
                lens += [1, 2, 5, 17, 64, 254] + [r.range(1, 254) for _ in range(nr)]
            if "ADI0" in names:
                lens += [0] * 4
            lens += [255]
        else:
            lens = [0] * (nr + 4)
        for n in lens:
            cs, regime = gens.candles(r, min(steps, 3 * n + 30) + 1)
            cases.append(candle_case(name, n, cs[0], cs[1:], "stream" if n != 255 else "ctor-boundary", {"regime": regime}))
    return cases


def replay(ctx, path, header):
    """re-run the case(s) of a replay file on the current tree: implementation, model, definition"""
    import json
    from .. import core
    with open(path) as f:
        rec = json.load(f)
    core.build_harness("debug", ())
    cs = [rec["case"]] if rec.get("case") else [b["case"] for b in rec.get("broken", []) if b.get("case")]
    for c in cs:
        line = c["line"]
        impl, err = core.run_harness([line])
        print("case:", line[:400])
        print("what:", rec.get("what") or "(correspondence / proof break)")
        print("implementation:", (impl[0] or [])[:40], err or "")
        if rec.get("model_output"):
            print("model (at time of report):", rec["model_output"][:40])
    return 0
