"""Action suite (C16)."""
import math, struct
from ..core import f2bits, bits2f, coq_float, T_NONE, T_MISMATCH

ALL = list(range(256)) + [1000] + [2000 + k for k in range(256)]


def r0(e):
    if e == 1000:
        return 0
    return e if e < 1000 else -(e - 2000)


def nf(e):
    return 0 if e == 2000 else e


def rank(e):
    return (0, e) if e < 1000 else ((1, 0) if e == 1000 else (2, e - 2000))


class Simple:
    """a case with a fixed harness line / Coq term / oracle closure"""

    def __init__(self, line, term, kind, oracle=None, exact=True, extra=None):
        self._line, self._term, self.kind = line, term, kind
        self.exact = exact
        self.extra = extra or {}
        if oracle is not None:
            self.oracle = oracle

    def line(self):
        return self._line

    def term(self):
        return self._term

    def meta(self):
        m = {"suite": self._line.split()[0], "kind": self.kind, "line": self._line[:400000]}
        m.update(self.extra)
        return m


def expected_strength(x):
    """reference semantics of From<f64> on exact rationals (independent of the model):
    clamp, |.|*255 rounded to nearest-even double, round half away, sign bit"""
    if x != x:
        return 1000
    n = max(-1.0, min(1.0, x))
    neg = math.copysign(1.0, n) < 0
    p = abs(n) * 255.0  # IEEE double multiplication in Python == Rust
    k = int(math.floor(p + 0.5)) if p < 4503599627370496 else int(p)
    # floor(p+0.5) in doubles can be off when p+0.5 rounds: do it exactly
    from fractions import Fraction
    k = int(math.floor(Fraction(p) + Fraction(1, 2)))
    k = max(0, min(255, k))
    return 2000 + k if neg else k


def oracle_all(impl):
    out = []
    if len(impl) != 513 * 7:
        return ["unary table has %d slots" % len(impl)]
    for i, a in enumerate(ALL):
        ratio, analog, sign, value, isnone, neg, back = impl[7 * i:7 * i + 7]
        if a == 1000:
            if (ratio, analog, sign, value, isnone, neg, back) != (T_NONE, 0, T_NONE, T_NONE, 1, 1000, 1000):
                out.append("None: unary observers %s" % (impl[7 * i:7 * i + 7],))
            continue
        k = a if a < 1000 else a - 2000
        r = bits2f(ratio)
        want = (k / 255.0) if a < 1000 else (-(float(k)) / 255.0)
        if f2bits(r) != f2bits(want) or not (-1.0 <= r <= 1.0):
            out.append("ratio(%d) = %r, expected %r" % (a, r, want))
        sg = (1 if k > 0 else 0) * (1 if a < 1000 else -1)
        if analog != sg or sign != sg + 10:
            out.append("analog/sign(%d) = %d/%d, sign of ratio is %d" % (a, analog, sign - 10, sg))
        if value != k or isnone != 0:
            out.append("value/is_none(%d)" % a)
        if neg != (2000 + k if a < 1000 else k):
            out.append("neg(%d) = %d" % (a, neg))
        if back != a:
            out.append("from(ratio(%d)) = %d" % (a, back))
    return out


def oracle_pairs(a):
    def f(impl):
        out = []
        if len(impl) != 513 * 3:
            return ["pair table has %d slots" % len(impl)]
        for i, b in enumerate(ALL):
            sub, eq, cmp_ = impl[3 * i:3 * i + 3]
            want = max(-255, min(255, r0(a) - r0(b)))
            if (sub == 1000) != (a == 1000 and b == 1000) or r0(sub) != want or T_MISMATCH in (sub, eq, cmp_):
                out.append("sub: %d - %d = %d, ratio*255 should be %d" % (a, b, sub, want))
            if eq != (1 if nf(a) == nf(b) else 0):
                out.append("eq(%d,%d) = %d is not equality of (direction,strength) up to zero strength" % (a, b, eq))
            c = (rank(a) > rank(b)) - (rank(a) < rank(b))
            if (eq == 1) != (cmp_ == 0):
                out.append("ordering inconsistent with equality on pair (%d,%d)" % (a, b))
            elif cmp_ != c:
                out.append("cmp(%d,%d) = %d is not the derived variant order %d" % (a, b, cmp_, c))
        return out
    return f


def oracle_i8(impl):
    out = []
    exp = []
    for v in range(-128, 128):
        e = 1000 if v == 0 else (255 if v > 0 else 2255)
        exp += [e, e]
    exp += [1000, 255, 1000]
    if impl != exp:
        out.append("From<i8>/From<bool> table differs from sign(v) -> BUY_ALL/None/SELL_ALL")
    return out


def oracle_floats(xs):
    def f(impl):
        out = []
        if len(impl) != len(xs):
            return ["%d outputs for %d inputs" % (len(impl), len(xs))]
        for x, got in zip(xs, impl):
            want = expected_strength(x)
            if got != want:
                out.append("from(%r) = %d, expected %d" % (x, got, want))
                if len(out) > 3:
                    break
        return out
    return f


def f32_next_up(b):
    return b + 1


def to_f32_bits_up(x):
    """smallest f32 (as bits, x > 0 finite) that is > x"""
    y = struct.unpack("<f", struct.pack("<f", x))[0]
    b = struct.unpack("<I", struct.pack("<f", y))[0]
    if y <= x:
        b += 1
    return b


def oracle_sweep(stride, bp_bits):
    bps = [bits2f(b) for b in bp_bits]

    def strength_pos(x):  # x >= 0 : number of break points strictly below x
        lo, hi = 0, len(bps)
        while lo < hi:
            m = (lo + hi) // 2
            if bps[m] < x:
                lo = m + 1
            else:
                hi = m
        return lo

    def f(impl):
        out = []
        viol, n = impl[0], impl[1]
        if viol != 0:
            out.append("f32 sweep (stride %d): %d non-monotone / wrong-direction / NaN-not-None points" % (stride, viol))
        firsts = [(impl[2 + 2 * i], impl[3 + 2 * i]) for i in range(n)]
        for b, e in firsts:
            x = struct.unpack("<f", struct.pack("<I", b & 0x7FFFFFFF))[0]
            k = strength_pos(x)
            want = 2000 + k if b & 0x80000000 else k
            if e != want:
                out.append("from(f32 bits %#x = %r) = %d, break-point table says %d" % (b, x, e, want))
                if len(out) > 3:
                    break
        if stride == 1:
            want_first = [0] + [to_f32_bits_up(x) for x in bps]
            got_pos = [b for b, e in firsts if not b & 0x80000000]
            got_neg = [b & 0x7FFFFFFF for b, e in firsts if b & 0x80000000]
            if got_pos != want_first or got_neg != want_first:
                out.append("f32 sweep: the 255 steps are not at the successors of the break points")
        return out
    return f


def gen(rng, tier, bp_bits):
    cases = []
    cases.append(Simple("action all", "act_all", "unary-all-513", oracle_all))
    for a in ALL:
        cases.append(Simple("action pairs %d" % a, "act_pairs (%d)" % a, "pairs-row", oracle_pairs(a), extra={"a": a}))
    cases.append(Simple("action i8", "act_i8", "i8-all-256", oracle_i8))
    # floats: break points +- few ulps, specials, random
    xs = []
    for b in bp_bits:
        for d in (-2, -1, 0, 1, 2):
            xs.append(bits2f(b + d))
            xs.append(-bits2f(b + d))
    spec = [0.0, -0.0, 1.0, -1.0, 2.0, -2.0, 0.5, -0.5, math.inf, -math.inf, math.nan, 5e-324, -5e-324,
            2.2250738585072014e-308, 1.7976931348623157e308, -1.7976931348623157e308, 0.9999999999999999,
            1.0000000000000002, 1 / 510, 1 / 255, 254.5 / 255, 1e-300, 0.00196078431372549]
    xs += spec
    nrand = 2000 if tier == "quick" else 40000
    for i in range(nrand):
        u = rng.below(4)
        if u == 0:
            xs.append(bits2f(rng.next()))
        elif u == 1:
            xs.append((rng.unit() * 2 - 1) * 1.2)
        elif u == 2:
            k = rng.range(0, 255)
            xs.append((k + 0.5 + (rng.unit() - 0.5) * 1e-12) / 255 * (1 if rng.chance(0.5) else -1))
        else:
            xs.append(bits2f(f2bits((rng.range(0, 255) + 0.5) / 255) + rng.range(-40, 40)))
    for i in range(0, len(xs), 400):
        chunk = xs[i:i + 400]
        line = "action f64 %d %s" % (len(chunk), " ".join("%016x" % f2bits(x) for x in chunk))
        term = "act_floats [%s]" % "; ".join(coq_float(x) for x in chunk)
        cases.append(Simple(line, term, "from-f64", oracle_floats(chunk)))
    # f32 inputs (every f32 is exactly an f64)
    ys = []
    for b in bp_bits:
        up = to_f32_bits_up(bits2f(b))
        for d in (-1, 0, 1):
            y = struct.unpack("<f", struct.pack("<I", up + d))[0]
            ys += [y, -y]
    for i in range(500 if tier == "quick" else 5000):
        ys.append(struct.unpack("<f", struct.pack("<I", rng.below(1 << 32)))[0])
    ys = [y for y in ys if y == y] + [math.nan]
    for i in range(0, len(ys), 400):
        chunk = ys[i:i + 400]
        line = "action f32 %d %s" % (len(chunk), " ".join("%016x" % f2bits(x) for x in chunk))
        term = "act_floats [%s]" % "; ".join(coq_float(x) for x in chunk)
        cases.append(Simple(line, term, "from-f32", oracle_floats(chunk)))
    return cases
