"""Input generators (DESIGN.md section 4): value families and stream regimes,
all choices from the run's splitmix64 stream."""
import math
from .core import f2bits, bits2f

BOUNDARY_LENGTHS = [1, 2, 3, 4, 5, 7, 8, 9, 15, 16, 17, 63, 64, 127, 128, 253, 254]


def dyadic(rng, scale=1.0):
    return rng.range(-64, 64) / 8.0 * scale


def price2(rng, base=100.0):
    return round(base * (0.5 + rng.unit()), 2)


def mant(rng, scale=1.0):
    return (rng.unit() * 2 - 1) * scale


REGIMES = ["walk", "plateau", "vol-flat-vol", "monotone", "spikes", "alternating", "scale-jumps", "dyadic", "mixed-zeros"]


def stream(rng, n, regime=None, positive=False):
    """a float stream of length n; returns (x0, xs, regime)"""
    regime = regime or rng.choice(REGIMES)
    xs = []
    base = rng.choice([1.0, 100.0, 0.01, 12345.678, 1e-3, 1e5, 1.0, 100.0, 1e-17, 1e12, 2.0 ** -60])
    if regime == "walk":
        x = base
        for _ in range(n):
            x = x + mant(rng, base * 0.05)
            if positive and x <= 0:
                x = base
            xs.append(round(x, 6))
    elif regime == "plateau":
        x = price2(rng, base)
        for _ in range(n):
            if rng.chance(0.15):
                x = price2(rng, base)
            xs.append(x)
    elif regime == "vol-flat-vol":
        a, b = n // 3, 2 * n // 3
        x = base
        for i in range(n):
            if i < a or i >= b:
                x = abs(base * (1 + mant(rng, 0.3))) if positive else base * mant(rng, 1.0)
                if rng.chance(0.2):
                    x *= 10.0 ** rng.range(-3, 3)
            xs.append(x)
    elif regime == "monotone":
        x = base
        up = rng.chance(0.5)
        for i in range(n):
            if rng.chance(0.05):
                up = not up
            x = x * (1.001 if up else 0.999) + (0.25 if up else -0.25) * (0 if positive else 1)
            xs.append(x)
    elif regime == "spikes":
        for i in range(n):
            x = base * (1 + mant(rng, 0.01))
            if rng.chance(0.05):
                x *= rng.choice([10.0, 0.1, 1000.0, 1e-3])
            xs.append(x)
    elif regime == "alternating":
        for i in range(n):
            x = base * (1 + rng.unit()) * (1 if (i % 2 == 0 or positive) else -1)
            xs.append(x)
    elif regime == "scale-jumps":
        sc = base
        for i in range(n):
            if rng.chance(0.1):
                sc = base * 10.0 ** rng.range(-8, 8) if rng.chance(0.3) else base * 10.0 ** rng.range(-2, 2)
            x = sc * (1 + mant(rng, 0.5))
            xs.append(abs(x) if positive else x)
    elif regime == "dyadic":
        for i in range(n):
            x = dyadic(rng)
            xs.append(abs(x) + 0.125 if positive else x)
    else:  # mixed-zeros: small alphabet with both zeros, heavy ties
        alpha = [-2.0, -1.0, -0.0, 0.0, 1.0, 2.0]
        for i in range(n):
            x = rng.choice(alpha)
            xs.append(abs(x) + 1.0 if positive else x)
    x0 = xs[0] if rng.chance(0.7) else (abs(xs[0]) + 1.0 if positive else rng.choice([0.0, xs[0] * 2, -xs[0], 1.0]))
    return x0, xs, regime


def candles(rng, n, regime=None):
    """valid candles (low <= open,close <= high, positive, volume >= 0) derived from a positive path"""
    _, path, regime = stream(rng, n + 1, regime=regime, positive=True)
    path = [p if (p == p and 0 < p < 1e300) else 1.0 for p in path]
    out = []
    for i in range(1, n + 1):
        o, c = path[i - 1], path[i]
        if rng.chance(0.15):  # gap
            o = path[i] * (1 + mant(rng, 0.02))
            if o <= 0:
                o = path[i]
        hi = max(o, c)
        lo = min(o, c)
        if not rng.chance(0.2):  # 20% of the bars have no wicks (high == max(o,c) ...)
            hi = hi * (1 + rng.unit() * 0.01)
            lo = lo * (1 - rng.unit() * 0.01)
        if rng.chance(0.05):
            o = c = hi = lo = c  # high == low bar
        v = 0.0 if rng.chance(0.1) else float(rng.range(1, 100000)) * rng.choice([1.0, 0.5, 1e3])
        out.append((o, hi, lo, c, v))
    return out, regime


def hexs(xs):
    return " ".join("%016x" % f2bits(x) for x in xs)


def trend_candles(r, legs):
    """legs: list of (steps, drift per step); valid candles with a new extreme on (almost) every bar"""
    out = []
    p = 100.0
    for n, drift in legs:
        for _ in range(n):
            o = p
            p = p * (1.0 + drift * (0.6 + 0.8 * r.unit()))
            c = p
            hi = max(o, c) * (1 + 0.0004 * r.unit())
            lo = min(o, c) * (1 - 0.0004 * r.unit())
            out.append((o, hi, lo, c, float(r.range(1, 5000))))
    return out
