"""Generic check driver: translate -> prove -> audit -> build -> correspondence
-> oracle -> decide (DESIGN.md sections 2 and 6)."""
import argparse, hashlib, importlib, json, os, re, shutil, sys, time, traceback

from . import core
from .core import VERIF, COQ

TRUSTED_BASE = [
    "Coq 8.16.1 kernel incl. primitive floats / 63-bit integers and the vm_compute machine (no native_compute)",
    "hand-written Gallina model of the Rust source (tied to /repo by the bit-exact correspondence run of this check)",
    "harness/ (Rust driver linked against /repo's working tree), tools/vt (case generation, rendering, diff)",
    "rustc/LLVM compile IEEE-754 operations without contraction or reassociation; glibc fma is correctly rounded",
]


class Ctx:
    def __init__(self, prop, tier, seed):
        self.prop, self.tier, self.seed = prop, tier, seed
        self.rng = core.Rng(seed)
        self.work = os.path.join(VERIF, ".work", "%s-%d" % (prop, os.getpid()))
        os.makedirs(self.work, exist_ok=True)
        self.t0 = time.time()
        self.suites = []          # per suite statistics
        self.failing = []         # property failures found on the implementation (with replay)
        self.breaks = []          # proof obligations / correspondences that no longer check
        self.known_hits = {}
        self.notes = []
        self.samples = []
        self.evaluations = 0
        self.distinct = set()
        self.theorems = []
        self.extra = {}
        with open(os.path.join(VERIF, "known_findings.json")) as f:
            self.known = [k for k in json.load(f) if k.get("property") == prop and k.get("status", "open") == "open"]

    def log(self, *a):
        print("[%s %6.1fs]" % (self.prop, time.time() - self.t0), *a, flush=True)

    # ---- known findings
    def match_known(self, meta, what):
        for k in self.known:
            m = k["matcher"]
            ok = True
            for key, val in m.get("meta", {}).items():
                if meta.get(key) != val:
                    ok = False
            if ok and "what_regex" in m and not re.search(m["what_regex"], what or ""):
                ok = False
            if ok and "line_regex" in m and not re.search(m["line_regex"], meta.get("line", "")):
                ok = False
            if ok:
                return k
        return None

    # ---- recording
    def fail_input(self, meta, what, impl=None, model=None, theorem=None):
        k = self.match_known(meta, what)
        if k is not None:
            self.known_hits.setdefault(k["id"], dict(k=k, n=0))["n"] += 1
            return
        self.failing.append(dict(meta=meta, what=what, impl=impl, model=model, theorem=theorem))

    def broke(self, kind, name, detail, meta=None, impl=None, model=None):
        self.breaks.append(dict(kind=kind, name=name, detail=detail, meta=meta, impl=impl, model=model))

    # ---- correspondence + oracle over a list of cases
    def run_suite(self, name, cases, header, profile="debug", features=(), per_shard=60, theorem=None,
                  model=True):
        t = time.time()
        lines = [c.line() for c in cases]
        impl, herr = core.run_harness(lines, profile, features)
        if herr:
            self.broke("harness", name, herr)
        spec_idx = [i for i, c in enumerate(cases) if hasattr(c, "spec_term") and c.spec_term() is not None]
        spec = [None] * len(cases)
        terms = ([c.term() for c in cases] if model else []) + [cases[i].spec_term() for i in spec_idx]
        if terms:
            res, cerrs = core.run_coq_cases(header, terms, self.work, per_shard=per_shard, tag=name)
            for e in cerrs:
                self.broke("model-execution", name, e)
            nm = len(cases) if model else 0
            mod = res[:nm] if model else [None] * len(cases)
            for i, r in zip(spec_idx, res[nm:]):
                spec[i] = r
        else:
            mod = [None] * len(cases)
        ndis = 0
        nfail = 0
        kinds = {}
        for c, io, mo, so in zip(cases, impl, mod, spec):
            self.evaluations += 1
            meta = c.meta()
            kinds[meta.get("kind", "?")] = kinds.get(meta.get("kind", "?"), 0) + 1
            if len(lines) and getattr(c, "nontrivial", True):
                self.distinct.add(hashlib.sha1(c.line().encode()).hexdigest())
            verdict = None
            if io is None:
                verdict = "implementation produced no output for this case (harness crashed)"
            elif hasattr(c, "oracle2") and so is not None:
                try:
                    verdict = c.oracle2(io, so, self)
                except Exception as e:  # oracle bug must not be silent
                    verdict = None
                    self.broke("oracle-error", name, "oracle raised %r on %s" % (e, meta.get("line", "")[:200]))
            elif hasattr(c, "oracle"):
                try:
                    verdict = c.oracle(io)
                except Exception as e:  # oracle bug must not be silent
                    verdict = None
                    self.broke("oracle-error", name, "oracle raised %r on %s" % (e, meta.get("line", "")[:200]))
            d = None
            if model and io is not None:
                io_c = c.canon(io) if hasattr(c, "canon") else io
                d = core.first_diff(io_c, mo, getattr(c, "zero_loose", False))
            if isinstance(verdict, list) and not verdict:
                verdict = None
            if verdict is not None:
                nfail += 1
                for v in (verdict if isinstance(verdict, list) else [verdict]):
                    self.fail_input(meta, v, io, mo, theorem)
            if d is not None and (verdict is None or isinstance(verdict, list)):
                ndis += 1
                det = "first differing slot %d: impl=%s model=%s" % (
                    d, io[d] if io and d < len(io) else None, mo[d] if mo and d < len(mo) else None)
                if getattr(c, "exact", False):
                    # the model's output is the specification's (theorem): a difference IS a failing input
                    self.fail_input(meta, "implementation differs from the verified model: " + det, io, mo, theorem)
                else:
                    k = self.match_known(meta, "correspondence: " + det)
                    if k is not None:
                        self.known_hits.setdefault(k["id"], dict(k=k, n=0))["n"] += 1
                    else:
                        self.broke("correspondence", name, det, meta, io, mo)
        if cases:
            c0 = cases[len(cases) // 2]
            i0 = len(cases) // 2
            self.samples.append(dict(suite=name, case=c0.meta(), impl_output=(impl[i0] or [])[:24]))
        self.suites.append(dict(name=name, cases=len(cases), disagreements=ndis, oracle_failures=nfail,
                                kinds=kinds, profile=profile, features=list(features),
                                seconds=round(time.time() - t, 1)))
        self.log("suite %s: %d cases, %d disagreements, %d oracle failures (%.1fs)" %
                 (name, len(cases), ndis, nfail, time.time() - t))
        return impl, mod


def write_replay(ctx, rec, tag):
    os.makedirs(os.path.join(VERIF, "replays"), exist_ok=True)
    body = json.dumps(rec, sort_keys=True, default=str)
    h = hashlib.sha1(body.encode()).hexdigest()[:10]
    path = os.path.join(VERIF, "replays", "%s-%s-%s.json" % (ctx.prop, tag, h))
    with open(path, "w") as f:
        json.dump(rec, f, indent=1, sort_keys=True, default=str)
    return path


def finish(ctx, mod):
    """decide, write evidence, print VIOLATION / KNOWN-FINDING lines, return exit code"""
    rc = 0
    out_lines = []
    for kid, h in sorted(ctx.known_hits.items()):
        out_lines.append("KNOWN-FINDING: property=%s %s [%s, %d case(s) this run]" %
                         (ctx.prop, h["k"]["what"], kid, h["n"]))
    viol = 0
    if ctx.failing and os.environ.get("VERIF_DEBUG_FAILS"):
        for f in ctx.failing:
            sys.stderr.write("FAIL %s %s %s | %s\n" % (f["meta"].get("entry"), f["meta"].get("sets", f["meta"].get("length")), f["meta"].get("kind"), f["what"][:300]))
    if ctx.failing:
        # one replay per distinct description class (first of each), at most 5
        seen = set()
        for f in ctx.failing:
            key = re.sub(r"[-0-9.e+x]+", "#", f["what"])[:80] + "|" + str(f["meta"].get("kind")) + "|" + str(f["meta"].get("entry"))
            if key in seen or len(seen) >= 5:
                continue
            seen.add(key)
            rec = dict(property=ctx.prop, kind="failing-input", what=f["what"], case=f["meta"],
                       implementation_output=f["impl"], model_output=f["model"],
                       contradicts=f["theorem"], seed=ctx.seed, tier=ctx.tier,
                       replay_cmd="./check %s --replay <this file>" % ctx.prop)
            path = write_replay(ctx, rec, "fail")
            out_lines.append("VIOLATION property=%s replay=%s" % (ctx.prop, path))
            viol += 1
        rc = 1
    elif ctx.breaks:
        b = ctx.breaks[0]
        rec = dict(property=ctx.prop, kind="no-longer-checks", broken=[
            dict(kind=x["kind"], name=x["name"], detail=x["detail"][:3000], case=x["meta"],
                 implementation_output=x["impl"], model_output=x["model"]) for x in ctx.breaks[:10]],
            total_broken=len(ctx.breaks), seed=ctx.seed, tier=ctx.tier,
            note="a proof obligation or the model/implementation correspondence no longer checks; "
                 "the property oracle found no input on which the implementation violates the property")
        path = write_replay(ctx, rec, "break")
        out_lines.append("VIOLATION property=%s replay=%s no-failing-input-found" % (ctx.prop, path))
        viol += 1
        rc = 1
    wall = time.time() - ctx.t0
    nthm = len(ctx.theorems)
    proof_breaks = [b for b in ctx.breaks if b["kind"] in ("proof", "audit", "translation")]
    ev = dict(
        property_id=ctx.prop, tier=ctx.tier, seed=ctx.seed, level="proof",
        coverage=dict(
            obligations=max(nthm, 1), discharged=(nthm if not proof_breaks else 0),
            checker_cmd="make -C coq -j16 %s && coqc Audit.v (Print Assumptions of every theorem vs allow-list; grep for Admitted/Axiom/...)" % " ".join(mod.COQ_TARGETS),
            trusted_base=TRUSTED_BASE + getattr(mod, "TRUSTED_EXTRA", []),
            theorems=ctx.theorems,
            evaluations=ctx.evaluations, distinct_nontrivial=len(ctx.distinct),
            rule=getattr(mod, "RULE", "cases generated from VERIF_SEED; distinct = distinct harness case lines"),
            samples=ctx.samples[:6] if ctx.samples else [dict(note="no correspondence case in this run")],
            traces_validated_against_impl=sum(s["cases"] for s in ctx.suites),
            suites=ctx.suites,
            known_findings_hit=sorted(ctx.known_hits.keys()),
            repo_tree_sha=core.repo_tree_sha(),
            exhaustive=False,
            **ctx.extra),
        assumptions=getattr(mod, "ASSUMPTIONS", []) + ctx.notes,
        wall_s=round(wall, 1), violations=viol)
    os.makedirs(os.path.join(VERIF, "evidence"), exist_ok=True)
    with open(os.path.join(VERIF, "evidence", ctx.prop + ".json"), "w") as f:
        json.dump(ev, f, indent=1, default=str)
    for l in out_lines:
        print(l)
    ctx.log("done: exit %d, %d theorems, %d cases, %.0fs" % (rc, nthm, ctx.evaluations, wall))
    shutil.rmtree(ctx.work, ignore_errors=True)
    return rc


def main(argv=None):
    ap = argparse.ArgumentParser()
    ap.add_argument("prop")
    ap.add_argument("--tier", default=os.environ.get("VERIF_TIER", "quick"))
    ap.add_argument("--replay")
    ap.add_argument("--seed", type=int, default=int(os.environ.get("VERIF_SEED", "1")))
    a = ap.parse_args(argv)
    prop = a.prop.upper()
    mod = importlib.import_module("vt.props." + prop.lower())
    tier = a.tier if a.tier in ("quick", "thorough") else "quick"
    ctx = Ctx(prop, tier, a.seed)
    try:
        if a.replay:
            return mod.replay(ctx, a.replay)
        # 1. translate (properties that use generated tables)
        if hasattr(mod, "translate"):
            mod.translate(ctx)
        # 2. prove
        ok, log = core.coq_make(mod.COQ_TARGETS)
        if not ok:
            ctx.broke("proof", "coq build of " + " ".join(mod.COQ_TARGETS), log[-3000:])
            ctx.log("Coq build FAILED")
        else:
            au = core.audit(mod.PROP_MODULES, ctx.work)
            ctx.theorems = au["theorems"]
            for p in au["problems"]:
                ctx.broke("audit", "audit", p)
            ctx.log("proofs built, %d theorems audited, %d problems" % (len(ctx.theorems), len(au["problems"])))
            if tier == "thorough" and getattr(mod, "COQCHK", True) and os.environ.get("VERIF_NO_COQCHK") is None:
                rc, out = core.sh("timeout 3000 coqchk -silent -o -Q . Yata %s" % " ".join(
                    "Yata." + m for m in mod.PROP_MODULES), cwd=COQ)
                ctx.extra["coqchk"] = out[-1500:]
                if rc != 0:
                    ctx.broke("proof", "coqchk", out[-2000:])
        # 3. build the implementation
        for (profile, feats) in mod.builds(ctx):
            ok, log = core.build_harness(profile, feats)
            if not ok:
                ctx.broke("build", "cargo build %s %s" % (profile, feats), log[-3000:])
                ctx.log("harness build FAILED (%s %s)" % (profile, feats))
                return finish(ctx, mod)
        # 4./5. correspondence and oracle
        mod.run(ctx)
    except Exception as e:
        ctx.broke("internal", "check raised", traceback.format_exc()[-3000:])
        ctx.log("internal error: " + traceback.format_exc()[-1500:])
    return finish(ctx, mod)


if __name__ == "__main__":
    sys.exit(main())
