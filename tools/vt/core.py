"""Common machinery of /verif checks: paths, PRNG, running the harness and the
Coq model on the same cases, diffing, audit, evidence, violation protocol."""
import fcntl, hashlib, json, os, re, shlex, shutil, subprocess, sys, time
from concurrent.futures import ThreadPoolExecutor

VERIF = os.path.dirname(os.path.dirname(os.path.dirname(os.path.abspath(__file__))))
COQ = os.path.join(VERIF, "coq")
HARNESS = os.path.join(VERIF, "harness")
REPO = "/repo"
T_NONE, T_ERR, T_PANIC, T_MISMATCH = -1, -2, -3, -99
NEG_ZERO = 0x8000000000000000
NAN = 0x7FF8000000000000

ENV = dict(os.environ, CARGO_NET_OFFLINE="true")


class Rng:
    """splitmix64: every random choice of a run derives from VERIF_SEED."""

    def __init__(self, seed):
        self.s = seed & 0xFFFFFFFFFFFFFFFF

    def next(self):
        self.s = (self.s + 0x9E3779B97F4A7C15) & 0xFFFFFFFFFFFFFFFF
        z = self.s
        z = ((z ^ (z >> 30)) * 0xBF58476D1CE4E5B9) & 0xFFFFFFFFFFFFFFFF
        z = ((z ^ (z >> 27)) * 0x94D049BB133111EB) & 0xFFFFFFFFFFFFFFFF
        return z ^ (z >> 31)

    def below(self, n):
        return self.next() % n

    def range(self, lo, hi):  # inclusive
        return lo + self.below(hi - lo + 1)

    def choice(self, seq):
        return seq[self.below(len(seq))]

    def unit(self):
        return (self.next() >> 11) / float(1 << 53)

    def chance(self, p):
        return self.unit() < p

    def fork(self, tag):
        h = hashlib.sha256(("%d:%s" % (self.s, tag)).encode()).digest()
        return Rng(int.from_bytes(h[:8], "little"))


def sh(cmd, cwd=None, timeout=None, env=None, check=False):
    p = subprocess.run(cmd, cwd=cwd, timeout=timeout, env=env or ENV, shell=isinstance(cmd, str),
                       stdout=subprocess.PIPE, stderr=subprocess.STDOUT, text=True)
    if check and p.returncode != 0:
        raise RuntimeError("command failed: %s\n%s" % (cmd, p.stdout[-4000:]))
    return p.returncode, p.stdout


class Lock:
    def __init__(self, name):
        os.makedirs(os.path.join(VERIF, ".work"), exist_ok=True)
        self.path = os.path.join(VERIF, ".work", name + ".lock")

    def __enter__(self):
        self.f = open(self.path, "w")
        fcntl.flock(self.f, fcntl.LOCK_EX)
        return self

    def __exit__(self, *a):
        fcntl.flock(self.f, fcntl.LOCK_UN)
        self.f.close()


def repo_tree_sha():
    """hash of /repo's working tree sources (what the check is run against)"""
    h = hashlib.sha256()
    for root, dirs, files in sorted(os.walk(os.path.join(REPO, "src"))):
        dirs.sort()
        for f in sorted(files):
            p = os.path.join(root, f)
            h.update(p.encode())
            with open(p, "rb") as fh:
                h.update(fh.read())
    with open(os.path.join(REPO, "Cargo.toml"), "rb") as fh:
        h.update(fh.read())
    return h.hexdigest()[:16]


# ---------------------------------------------------------------- Coq side

def coq_make(targets, timeout=3000):
    """(re)build the .vo closure of the given targets; returns (ok, log)."""
    with Lock("coq"):
        if not os.path.exists(os.path.join(COQ, "Makefile")) or \
           os.path.getmtime(os.path.join(COQ, "Makefile")) < os.path.getmtime(os.path.join(COQ, "_CoqProject")):
            sh("coq_makefile -f _CoqProject -o Makefile", cwd=COQ, check=True)
        rc, out = sh(["timeout", str(timeout), "make", "-j16"] + targets, cwd=COQ)
    return rc == 0, out


ALLOWED_AXIOMS = {
    # real numbers of the standard library
    "ClassicalDedekindReals.sig_not_dec", "ClassicalDedekindReals.sig_forall_dec",
    "FunctionalExtensionality.functional_extensionality_dep",
    "Classical_Prop.classic",
    # Eqdep (dependent destruction / Flocq)
    "Eqdep.Eq_rect_eq.eq_rect_eq", "JMeq.JMeq_eq",
    "ProofIrrelevance.proof_irrelevance",
}
ALLOWED_PREFIXES = (
    # kernel primitives (floats, 63-bit integers) and their specification in FloatAxioms/Uint63
    "PrimFloat.", "FloatAxioms.", "PrimInt63.", "Uint63.", "Sint63.", "FloatOps.", "Int63.",
    "CarryType.", "PrimArray.", "Uint63Axioms.", "Sint63Axioms.",
)


def theorem_names(vfile):
    names = []
    with open(vfile) as f:
        for m in re.finditer(r"^\s*(?:Theorem|Example|Lemma|Corollary)\s+([A-Za-z0-9_']+)", f.read(), re.M):
            names.append(m.group(1))
    return names


def audit(prop_modules, workdir):
    """Print Assumptions of every theorem of the property files, compared with
    the allow-list; grep of the development for forbidden constructs.
    Returns dict(theorems=[{name, axioms}], problems=[...])."""
    problems = []
    theorems = []
    lines = []
    allnames = []
    for mod in prop_modules:
        vfile = os.path.join(COQ, mod.replace(".", "/") + ".v")
        names = theorem_names(vfile)
        lines.append("From Yata Require Import %s." % mod)
        for n in names:
            lines.append('Print Assumptions %s.' % n)
            allnames.append(n)
    src = os.path.join(workdir, "Audit.v")
    with open(src, "w") as f:
        f.write("\n".join(lines) + "\n")
    rc, out = sh(["timeout", "600", "coqc", "-Q", COQ, "Yata", "-w", "none", "-noglob", src])
    if rc != 0:
        problems.append("audit file does not compile: " + out[-800:])
        return dict(theorems=[], problems=problems)
    # split the output per theorem: each Print Assumptions prints either
    # "Closed under the global context" or "Axioms:" + indented list
    blocks = re.split(r"(?m)^(?=Closed under the global context|Axioms:)", out)
    blocks = [b for b in blocks if b.startswith("Closed") or b.startswith("Axioms:")]
    if len(blocks) != len(allnames):
        problems.append("audit: %d assumption blocks for %d theorems" % (len(blocks), len(allnames)))
    for n, b in zip(allnames, blocks):
        axs = []
        if b.startswith("Axioms:"):
            for m in re.finditer(r"(?m)^([A-Za-z_][A-Za-z0-9_.']*)\s*:", b[len("Axioms:"):]):
                axs.append(m.group(1))
        bad = [a for a in axs if a not in ALLOWED_AXIOMS and not a.startswith(ALLOWED_PREFIXES)]
        if bad:
            problems.append("theorem %s depends on non-allow-listed axioms %s" % (n, bad))
        theorems.append(dict(name=n, axioms=sorted(set(axs))))
    # forbidden constructs anywhere in the development
    pat = re.compile(r"\b(Admitted|admit|Axiom|Axioms|Parameter|Parameters|Conjecture|Abort All)\b|Unset Guard|bypass_check|type-in-type|impredicative-set|Admit Obligations")
    for root, dirs, files in os.walk(COQ):
        for fn in files:
            if not fn.endswith(".v") or fn.startswith("Scratch"):
                continue
            p = os.path.join(root, fn)
            with open(p) as fh:
                txt = fh.read()
            txt_nc = strip_coq_comments(txt)
            for m in pat.finditer(txt_nc):
                problems.append("forbidden construct %r in %s" % (m.group(0), os.path.relpath(p, COQ)))
    return dict(theorems=theorems, problems=problems)


def strip_coq_comments(s):
    out = []
    depth = 0
    i = 0
    instr = False
    while i < len(s):
        if depth == 0 and s[i] == '"':
            instr = not instr
            out.append(s[i]); i += 1; continue
        if not instr and s.startswith("(*", i):
            depth += 1; i += 2; continue
        if not instr and depth > 0 and s.startswith("*)", i):
            depth -= 1; i += 2; continue
        if depth == 0:
            out.append(s[i])
        i += 1
    return "".join(out)


def run_coq_cases(header, terms, workdir, per_shard=60, timeout=1200, tag="cases"):
    """terms: list of Gallina terms of type [list Z]; evaluated with vm_compute
    in shards of coqc processes.  Returns list of int lists (None if a shard failed)."""
    # shards balanced by the size of the terms (a few very long streams must not end up in one coqc): longest first, each into
    # the currently lightest shard; at most per_shard terms and about 1.5 MB of source per shard
    total = sum(len(t) for t in terms)
    nsh = max(1, -(-len(terms) // per_shard), -(-total // 1500000))
    nsh = min(nsh, max(1, len(terms)))
    order = sorted(range(len(terms)), key=lambda i: -len(terms[i]))
    bins = [[] for _ in range(nsh)]
    load = [0] * nsh
    for i in order:
        k = min(range(nsh), key=lambda j: (len(bins[j]) >= per_shard and nsh * per_shard >= len(terms), load[j]))
        bins[k].append(i)
        load[k] += len(terms[i])
    bins = [sorted(b) for b in bins if b]
    shards = [[terms[i] for i in b] for b in bins]
    files = []
    for k, sh_terms in enumerate(shards):
        p = os.path.join(workdir, "%s_%d.v" % (re.sub(r"[^A-Za-z0-9_]", "_", tag), k))
        with open(p, "w") as f:
            f.write(header + "\nSet Printing Width 1000000.\nSet Printing Depth 100000000.\n")
            for t in sh_terms:
                f.write("Eval vm_compute in (%s).\n" % t)
        files.append(p)

    def one(p):
        # long list literals (de Bruijn streams of 46662 inputs) need more than the default 8 MB stack of coqc
        cmd = "ulimit -s unlimited 2>/dev/null || ulimit -s 4000000 2>/dev/null; exec timeout %d coqc -Q %s Yata -w none -noglob %s" % (
            timeout, shlex.quote(COQ), shlex.quote(p))
        rc, out = sh(["bash", "-c", cmd])
        return rc, out

    results = [None] * len(terms)
    errors = []
    with ThreadPoolExecutor(max_workers=16) as ex:
        outs = list(ex.map(one, files))
    for (rc, out), sh_terms, p, b in zip(outs, shards, files, bins):
        if rc != 0:
            errors.append("coqc failed on %s: %s" % (p, out[-1500:]))
            continue
        chunks = out.split("     = ")[1:]
        if len(chunks) != len(sh_terms):
            errors.append("coqc output of %s: %d results for %d terms" % (p, len(chunks), len(sh_terms)))
            continue
        for i, c in zip(b, chunks):
            body = c.split("     : ")[0]
            results[i] = [int(x) for x in re.findall(r"-?\d+", body)]
    return results, errors


# ---------------------------------------------------------------- Rust side

def harness_bin(profile="debug", features=()):
    tdir = "target" if not features else "target-" + "-".join(sorted(features))
    return os.path.join(HARNESS, tdir, profile, "yata_harness")


def build_harness(profile="debug", features=(), timeout=1800):
    """builds harness/ against /repo's current working tree"""
    tdir = "target" if not features else "target-" + "-".join(sorted(features))
    cmd = ["timeout", str(timeout), "cargo", "build", "--offline", "--target-dir", os.path.join(HARNESS, tdir)]
    if profile == "release":
        cmd.append("--release")
    if features:
        cmd += ["--features", ",".join(features)]
    with Lock("cargo-" + tdir):
        rc, out = sh(cmd, cwd=HARNESS)
    return rc == 0, out


def run_harness(lines, profile="debug", features=(), timeout=1800):
    """lines: list of case lines (without id); returns list of int lists"""
    inp = "".join("%d %s\n" % (i, l) for i, l in enumerate(lines))
    p = subprocess.run(["timeout", str(timeout), harness_bin(profile, features)], input=inp, env=ENV,
                       stdout=subprocess.PIPE, stderr=subprocess.PIPE, text=True)
    res = [None] * len(lines)
    for ln in p.stdout.splitlines():
        parts = ln.split()
        res[int(parts[0])] = [int(x) for x in parts[1:]]
    err = None
    if p.returncode != 0:
        err = "harness exited with %d: %s" % (p.returncode, p.stderr[-2000:])
    return res, err


# ---------------------------------------------------------------- floats

import struct


def f2bits(x):
    return struct.unpack("<Q", struct.pack("<d", x))[0]


def bits2f(b):
    return struct.unpack("<d", struct.pack("<Q", b & 0xFFFFFFFFFFFFFFFF))[0]


def f2hex16(x):
    return "%016x" % f2bits(x)


def coq_float(x):
    """exact Coq literal of a binary64 value"""
    import math
    if x != x:
        return "nan"
    if x == math.inf:
        return "infinity"
    if x == -math.inf:
        return "neg_infinity"
    if x == 0:
        return "(-0)%float" if math.copysign(1, x) < 0 else "0%float"
    h = float.hex(x)
    if h.startswith("-"):
        return "(-%s)%%float" % h[1:]
    return "(%s)%%float" % h


def canon_int(v, zero_loose):
    if zero_loose and v == NEG_ZERO:
        return 0
    return v


def first_diff(a, b, zero_loose=False):
    """index of the first differing slot, or None"""
    if a is None or b is None:
        return 0
    for i in range(max(len(a), len(b))):
        x = a[i] if i < len(a) else None
        y = b[i] if i < len(b) else None
        if x is None or y is None:
            return i
        if canon_int(x, zero_loose) != canon_int(y, zero_loose):
            return i
    return None


def run_harness_robust(lines, profile="debug", features=(), max_crashes=12):
    """like run_harness, but survives aborts of the harness process (e.g. the debug-build UB checks of
    get_unchecked): the case on which the process died gets the transcript [T_CRASH]; the rest is re-run"""
    T_CRASH = -4
    out = [None] * len(lines)
    start = 0
    crashes = 0
    err = None
    while start < len(lines):
        res, e = run_harness(lines[start:], profile, features)
        done = 0
        for r in res:
            if r is None:
                break
            out[start + done] = r
            done += 1
        if done == len(res):
            break
        # the process died on case start+done
        out[start + done] = [T_CRASH]
        err = e
        crashes += 1
        start = start + done + 1
        if crashes >= max_crashes:
            break
    return out, (err if crashes else None)
