#!/usr/bin/env python3
"""Regenerates /verif/MANIFEST.json from the table of claimed checks below."""
import json, os
V = os.path.dirname(os.path.dirname(os.path.abspath(__file__)))
props = [json.loads(l) for l in open(os.path.join(V, "properties.jsonl"))]
TECH = "Coq proof about a Gallina model + bit-exact model/implementation correspondence run"
CLAIMED = {
 "C01": dict(
  text="All Window observers are proved (Coq, axiom-free) to read the list 'last N pushes' for every capacity, element type, push count and iterator split, on a field-by-field Gallina transcription of window.rs; the transcription is tied to /repo on every run by an exhaustive small-scope + random op-program differential against the implementation and an independent list-level oracle.",
  note="Trusted: Coq kernel; the hand transcription of window.rs (checked by the differential, not proved); Vec/Box/slice primitives and serde_json; u64 labels stand for all T. Debug profile (overflow and debug_assert active).",
  technique="Coq proof (refinement of the ring buffer to a list; induction over pushes and iterator steps) + model/implementation correspondence", ref="9/C01"),
 "C16": dict(
  text="The integer algebra of Action (neg, sub, eq, ord, i8 conversions, analog/sign) is proved for all strengths by case analysis; the binary64 conversions are decided by kernel computation over the complete set of 513 actions and the 255 break points (adjacent floats mapped to consecutive strengths); the implementation is compared with the model over the complete finite domains (all actions, all pairs, all i8) and, for floats, on break-point neighbourhoods, random patterns and an f32 sweep (all 2^32 patterns in the thorough tier).",
  note="Trusted: Coq kernel incl. primitive floats; hand transcription of action.rs (checked by exhaustive differential). Monotonicity of From<f64> between break points is argued from IEEE rounding monotonicity and exercised by the sweep, not proved in Coq. One known finding (Ord vs PartialEq on Buy(0)/Sell(0)) is refuted in Coq and listed in known_findings.json.",
  technique="Coq proof (case analysis + lia; vm_compute over the complete finite domain lifted by forallb_forall) + exhaustive model/implementation correspondence", ref="9/C16"),
}
checks = []
for pid, c in CLAIMED.items():
    checks.append(dict(property_id=pid, quick_cmd="./check %s --tier quick" % pid,
                       thorough_cmd="./check %s --tier thorough" % pid,
                       evidence_file="/verif/evidence/%s.json" % pid,
                       replay_cmd_template="./check %s --replay {path}" % pid, engine="coq-correspondence",
                       level_claimed=dict(category="proof", text=c["text"], design_ref="DESIGN.md section " + c["ref"]),
                       level_note=c["note"], technique=c["technique"]))
NA_REASON = ("not yet built in this round: the model, theorems and correspondence suite for this property are still "
             "being written (DESIGN.md section 9 gives the plan); no check is claimed until it runs")
na = [dict(property_id=p["id"], reason=NA_REASON) for p in props if p["id"] not in CLAIMED]
m = dict(version=1, setup_cmd="./setup.sh",
         hooks=dict(guard="--cfg yata_verif",
                    enable="no hook is needed: the harness observes yata through its public API and serde; RUSTFLAGS=\"--cfg yata_verif\" is reserved",
                    baseline_off_cmd="cd /repo && cargo test --workspace --no-fail-fast --offline",
                    source_commits=[], add_only=True),
         engines=[dict(name="coq-correspondence", path="/verif/check", serves_properties=list(CLAIMED),
                       kind_free_text="Coq 8.16 proofs about a hand-written Gallina model + bit-exact differential of the model (vm_compute) against the implementation (Rust harness linked to /repo)")],
         checks=checks, not_applicable=na,
         notes="fix: commits in /repo and open findings are listed in known_findings.json and DESIGN.md section 10.")
json.dump(m, open(os.path.join(V, "MANIFEST.json"), "w"), indent=1)
print("claimed:", sorted(CLAIMED))
