#!/bin/bash
# Runs every seeded change of /verif/seeded/<id>/patch.diff against the quick check of its property
# (plus extra properties given in seeded/<id>/also.txt): apply to /repo, run, undo.  Writes seeded/<id>/detection.txt.
cd /verif
for d in seeded/C*-*; do
  id=$(basename $d); P=${id%%-*}
  [ -f $d/patch.diff ] || continue
  [ -n "$1" ] && [[ "$id" != $1 ]] && continue
  props="$P $(cat $d/also.txt 2>/dev/null)"
  git -C /repo checkout -q -- . ; git -C /repo apply $PWD/$d/patch.diff || { echo "patch does not apply" > $d/detection.txt; continue; }
  : > $d/detection.txt
  for p in $props; do
    echo "== ./check $p --tier quick   (with $id applied to /repo, $(date -u +%FT%TZ))" >> $d/detection.txt
    ./check $p --tier quick 2>&1 | grep -E "^VIOLATION|done:|suite " | cut -c1-300 >> $d/detection.txt
  done
  git -C /repo checkout -q -- .
done
git -C /repo status --short | head -3
echo matrix-done
