#!/bin/bash
# Confirms the seeded changes of one round produced under $1 (e.g. /tmp/mut3/<P>/out/mut{A,B}.diff + demo_mut{A,B}.rs)
# in ONE scratch worktree: (1) clean: demo passes; (2) with the change: crate compiles, the 132 lib tests pass, demo FAILS.
# Writes $1/<P>/out/confirm_<X>.txt ; the scratch worktree is removed at the end.   usage: confirm_round.sh /tmp/mut3
export CARGO_NET_OFFLINE=true
SRC=$1
WT=/tmp/confirm_wt
git -C /repo worktree remove --force $WT 2>/dev/null
git -C /repo worktree add -q --detach $WT HEAD || exit 1
cd $WT
for d in $SRC/C*/out; do
  P=$(basename $(dirname $d))
  FEAT=""
  [ "$P" = C19 ] && FEAT="--features unsafe_performance"
  [ "$P" = C20 ] && FEAT="--features period_type_u16"
  for X in A B; do
    [ -f $d/mut$X.diff ] || continue
    [ -f $d/confirm_$X.txt ] && continue
    git checkout -q -- . ; rm -rf tests; mkdir -p tests; cp $d/demo_mut$X.rs tests/demo.rs
    out=$d/confirm_$X.txt
    { echo "property $P mutation $X ${FEAT:+features ${FEAT#--features }} ($(date -u +%FT%TZ))";
      echo "== clean tree: cargo test --offline $FEAT --test demo"; } > $out
    timeout 1800 cargo test --offline $FEAT --test demo > /tmp/confirm.log 2>&1; rc_clean=$?
    grep -E "^test result" /tmp/confirm.log | tail -2 >> $out; echo "exit=$rc_clean" >> $out
    git apply $d/mut$X.diff >> $out 2>&1 || { echo "PATCH DOES NOT APPLY" >> $out; continue; }
    echo "== with change: cargo test --lib --offline (default features)" >> $out
    timeout 1800 cargo test --lib --offline > /tmp/confirm.log 2>&1; rc_lib=$?
    grep -E "^test result|^error" /tmp/confirm.log | head -5 >> $out; echo "exit=$rc_lib" >> $out
    if [ -n "$FEAT" ]; then
      echo "== with change: cargo test --lib --offline $FEAT" >> $out
      timeout 1800 cargo test --lib --offline $FEAT > /tmp/confirm.log 2>&1; rc_lib2=$?
      grep -E "^test result|^error" /tmp/confirm.log | head -5 >> $out; echo "exit=$rc_lib2" >> $out
    fi
    echo "== with change: cargo test --offline $FEAT --test demo" >> $out
    timeout 1800 cargo test --offline $FEAT --test demo > /tmp/confirm.log 2>&1; rc_mut=$?
    grep -E "^test result|panicked|FAILED" /tmp/confirm.log | head -8 >> $out; echo "exit=$rc_mut" >> $out
    if [ $rc_clean -eq 0 ] && [ $rc_lib -eq 0 ] && [ $rc_mut -ne 0 ]; then echo "CONFIRMED" >> $out; else echo "NOT-CONFIRMED" >> $out; fi
    git checkout -q -- .
  done
done
cd /; git -C /repo worktree remove --force $WT
echo all-done
