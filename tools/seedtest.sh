#!/bin/bash
# usage: seedtest.sh <patch.diff> <prop> [<prop> ...] : apply a seeded change to /repo, run the quick checks, undo
patch=$1; shift
cd /repo && git apply "$patch" || { echo "patch does not apply"; exit 2; }
for p in "$@"; do
  (cd /verif && ./check $p --tier quick 2>&1 | grep -E "VIOLATION|KNOWN|done:|suite" | sed "s/^/[$p] /")
done
git -C /repo checkout -- . 
git -C /repo status --short | head -3
