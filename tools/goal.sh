#!/bin/bash
# usage: goal.sh <file.v relative to coq/> <line>  -- shows the goal after <line> lines
cd /verif/coq
f=$1; n=$2
tmp=$(mktemp -p . Scratch_XXXX.v)
head -n $n $f > $tmp
echo "Show." >> $tmp
timeout ${3:-120} coqc -Q . Yata -w none $tmp 2>&1 | tail -${4:-40}
rm -f $tmp ${tmp%.v}.vo ${tmp%.v}.glob ${tmp%.v}.vok ${tmp%.v}.vos .${tmp#./}.aux .$(basename ${tmp%.v}).aux
